(* Driver for the C18 model (extracted PV.Index).  Input: the same lines as harness/h_c18.cpp,
     case <id> <order_spins 0|1> <nsites> { <label> <orbitals> <spins> }* <nqueries> { <label> <orbital> <spin> }*
   (labels: 'x' + hex bytes).  Output: two lines per case with the same body as the harness' "R" line,
     M0 <id> ...    the loops as written        (fixed = false: `break`)
     M1 <id> ...    the minimally repaired loop (fixed = true:  `continue`)
   prepare= is ok | UNINIT | OOB | THROWS | FUEL; the vector printed under vec= is what the enumeration loops
   leave behind (fill_vector), also when prepare does not return normally. *)
module M = C18_model

let hexv c = match c with
  | '0'..'9' -> Char.code c - 48 | 'a'..'f' -> Char.code c - 87 | 'A'..'F' -> Char.code c - 55
  | _ -> failwith "hex"

(* byte -> Ascii (least significant bit first, as Coq's Ascii constructor) *)
let ascii_of_int b =
  let t k = (b lsr k) land 1 = 1 in
  M.Ascii (t 0, t 1, t 2, t 3, t 4, t 5, t 6, t 7)
let int_of_ascii (M.Ascii (b0, b1, b2, b3, b4, b5, b6, b7)) =
  let v b k = if b then 1 lsl k else 0 in
  v b0 0 + v b1 1 + v b2 2 + v b3 3 + v b4 4 + v b5 5 + v b6 6 + v b7 7

let label_of_token (t : Stdlib.String.t) : M.label =
  let n = (Stdlib.String.length t - 1) / 2 in
  let rec go i = if i >= n then M.EmptyString
    else M.String (ascii_of_int (hexv t.[1 + 2 * i] * 16 + hexv t.[2 + 2 * i]), go (i + 1)) in
  go 0
let rec token_of_label_aux (l : M.label) = match l with
  | M.EmptyString -> ""
  | M.String (a, r) -> Printf.sprintf "%02x" (int_of_ascii a) ^ token_of_label_aux r
let token_of_label l = "x" ^ token_of_label_aux l

let entry (((l, o), s) : M.info) = Printf.sprintf "%s:%d:%d" (token_of_label l) o s
let opt_entry = function None -> "NULL" | Some x -> entry x
let join f l = Stdlib.String.concat "," (List.map f l)
let rec range a b = if a >= b then [] else a :: range (a + 1) b

let outcome_tag = function
  | M.Done _ -> "ok" | M.OOB -> "OOB" | M.Uninit -> "UNINIT" | M.Throws _ -> "THROWS" | M.OutOfFuel -> "FUEL"

let run_variant tag id fixed mode calls queries =
  let sm = M.site_map calls in
  let b = Buffer.create 256 in
  Buffer.add_string b (Printf.sprintf "%s %s sites=%s" tag id
    (join (fun (s : M.site) -> Printf.sprintf "%s:%d:%d" (token_of_label s.M.s_label) s.M.s_orb s.M.s_spin) sm));
  Buffer.add_string b (Printf.sprintf " size=%d" (M.index_total sm));
  (match M.fill_vector fixed mode sm with
   | M.Done (v, _) -> Buffer.add_string b (" vec=" ^ join opt_entry v)
   | o -> Buffer.add_string b (" vec=!" ^ outcome_tag o));
  let p = M.prepare fixed mode sm in
  Buffer.add_string b (" prepare=" ^ outcome_tag p);
  (match p with
   | M.Done t ->
     let n = t.M.indexSize in
     let info i = match M.getInfo t i with
       | M.Done x -> entry x | M.Uninit -> "NULL" | M.Throws _ -> "THROW" | M.OOB -> "OOB" | M.OutOfFuel -> "FUEL" in
     Buffer.add_string b (" info=" ^ join info (range 0 n));
     Buffer.add_string b (" thr=" ^ Stdlib.String.concat ""
       (List.map (fun i -> match M.getInfo t i with M.Throws _ -> "T" | _ -> "N") [n; n + 1]));
     let triples = List.concat_map (fun (s : M.site) ->
         List.concat_map (fun o -> List.map (fun z -> ((s.M.s_label, o), z)) (range 0 s.M.s_spin)) (range 0 s.M.s_orb)) sm in
     Buffer.add_string b (" idx=" ^ join (fun x -> string_of_int (M.getIndex t x)) triples);
     Buffer.add_string b (" q=" ^ join (fun x -> string_of_int (M.getIndex t x)) queries);
     Buffer.add_string b (" chk=" ^ Stdlib.String.concat ""
       (List.map (fun i -> if M.checkIndex t i then "1" else "0") (range 0 (n + 2))))
   | _ -> ());
  print_endline (Buffer.contents b)

let () =
  try
    while true do
      let line = input_line stdin in
      match List.filter (fun s -> s <> "") (Stdlib.String.split_on_char ' ' (Stdlib.String.trim line)) with
      | "case" :: id :: mode :: ns :: rest ->
        let a = Array.of_list rest in
        let ns = int_of_string ns in
        let calls = List.map (fun k ->
            { M.s_label = label_of_token a.(3 * k); M.s_orb = int_of_string a.(3 * k + 1); M.s_spin = int_of_string a.(3 * k + 2) })
            (range 0 ns) in
        let p = 3 * ns in
        let nq = int_of_string a.(p) in
        let queries = List.map (fun k ->
            ((label_of_token a.(p + 1 + 3 * k), int_of_string a.(p + 2 + 3 * k)), int_of_string a.(p + 3 + 3 * k)))
            (range 0 nq) in
        let mode = mode <> "0" in
        run_variant "M0" id false mode calls queries;
        run_variant "M1" id true mode calls queries
      | [] -> ()
      | _ -> print_endline "PARSE-ERROR"
    done
  with End_of_file -> ()
