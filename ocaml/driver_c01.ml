(* C01 / C14 / C17-loops driver around the extracted models (C01_model.ml).  Hand-written glue only: parsing,
   assembling, printing.  Two kinds of input, same record syntax as the harnesses:

   (A) the output of harness/h_c01.cpp (NBLOCKS/EIG/W/RET/BETA, then per query GFRAW|SUSCRAW, MAPL, MAPR, CS ..., the
       library's own PARTS/TERMS/... records are ignored), each query followed by a line
         gfmodel <nz> {re im} [n <k> {numbers}]        or    suscmodel <nz> {re im} [n <k> {numbers}]
       answered from PV.GFPart / PV.SuscPart:
         RUN <strict|lenient|fixed|source> <L> <R> <Done | PastEnd A|B pos | OOB A|B pos | Fuel>      one per part and mode
              strict / lenient: loops without the iterator test; fixed: with it; source: as the translator found them in the
              source now (lenient: what the hardware does);  GUARDED 0|1: that finding
         WF <0|1>                                                    all matrices well-formed (cs_wf_b) and compressed
         MPARTS n {L R} / MTERMS L R n {re im pole} / MSTAT L R matched kept dropped new merged negl refused
         MCHAIN L R <longest chain of merges an added term went through>
         MZERO L R re im (susceptibility) / MAVG reA imA reB imB
         MVAL tag nz {re im} / MVALN tag k {n re im}          tag = G | S0 | S1 | S2 | S3
         MBOUND nz {dropped merge negl} / MBOUNDN k {n dropped merge negl}     from the model's ghost data
   (B) the dump of harness/h_ed.cpp (N/HPOLY/NBLOCKS/BLOCK/VEC/EIG/BETA/W ... ENDDUMP) followed by
         gfbound <i> <j> <nz> {re im} [n <k> {numbers}]   ->  GFBOUND i j nz {dropped merge abssum} / GFBOUNDN k {n dropped merge abssum}
         suscbound <a> <b> <c> <d> <k> {numbers}          ->  SUSCBOUNDN k {n dropped merge resonance abssum}
         susctaubound <a> <b> <c> <d>                      ->  SUSCTAUBOUND dropped merge      (uniform in tau)
         susctauspec <a> <b> <c> <d> {tau}                 ->  SUSCTAUSPEC a b c d {re im}     (PV.TruncSpec.susc_tau_safe, unsubtracted)
       (abssum = sum over all Lehmann terms of |R|/|z-P|: the scale of the rounding error)
       answered from PV.TruncSpec on the full Fock space. *)
open C01_model

let fexp (x : Float64.t) : Float64.t = Float64.of_float (Stdlib.exp (Float64.to_float x))
let fl x = Float64.of_float x
let tf x = Float64.to_float x
let c re im : fc = (fl re, fl im)
let re (z : fc) = tf (fst z)
let im (z : fc) = tf (snd z)
let hc z = Printf.sprintf "%h %h" (re z) (im z)
let fos = float_of_string
let ios = int_of_string
let cabs (z : fc) = Float.hypot (re z) (im z)
let csub (a : fc) (b : fc) = c (re a -. re b) (im a -. im b)

let rec pos_of_int n = if n = 1 then XH else if n land 1 = 0 then XO (pos_of_int (n / 2)) else XI (pos_of_int (n / 2))
let z_of_int n = if n = 0 then Z0 else if n > 0 then Zpos (pos_of_int n) else Zneg (pos_of_int (-n))

(* ---- shared dump state ---- *)
let nblocks = ref 0
let beta = ref 1.0
let eigs : (int, float array) Hashtbl.t = Hashtbl.create 16
let ws : (int, float array) Hashtbl.t = Hashtbl.create 16
let ret : (int, bool) Hashtbl.t = Hashtbl.create 16

(* ---- (A) model input ---- *)
let mapl : (int * int) list ref = ref []
let mapr : (int * int) list ref = ref []
let maplb : (int * int) list ref = ref []
let csA : (int, fc cs * (int * bool)) Hashtbl.t = Hashtbl.create 16      (* key -> matrix, (alloc, compressed) *)
let csB : (int, fc cs * (int * bool)) Hashtbl.t = Hashtbl.create 16
let csBR : (int, fc cs * (int * bool)) Hashtbl.t = Hashtbl.create 16

let split_bar (t : string array) =
  (* token array -> list of segments separated by "|" *)
  let segs = ref [] and cur = ref [] in
  Array.iter (fun s -> if s = "|" then (segs := List.rev !cur :: !segs; cur := []) else cur := s :: !cur) t;
  List.rev (List.rev !cur :: !segs)

let parse_cs (t : string array) =
  match split_bar t with
  | [hd; ptr; idx; vals] ->
    let h = Array.of_list hd in
    let which = h.(1) and key = ios h.(2) in
    let rows = ios h.(5) and cols = ios h.(6) in
    let alloc = ios h.(9) and compressed = h.(10) = "1" in
    let inner = if which = "B" then rows else cols in
    let rec pairs = function a :: b :: r -> c (fos a) (fos b) :: pairs r | _ -> [] in
    let m = { cs_inner = inner; cs_ptr = List.map ios ptr; cs_idx = List.map ios idx; cs_val = pairs vals } in
    (which, key, m, (alloc, compressed))
  | _ -> failwith "CS record"

let pairs_of (t : string array) k0 =
  let n = ios t.(k0) in List.init n (fun q -> (ios t.(k0 + 1 + 2 * q), ios t.(k0 + 2 + 2 * q)))

let flist b tbl = try List.map (fun x -> c x 0.) (Array.to_list (Hashtbl.find tbl b)) with Not_found -> []

let gfin cl cxr (ta : (int, fc cs * (int * bool)) Hashtbl.t) (tb : (int, fc cs * (int * bool)) Hashtbl.t) : fc gf_in =
  { g_cl = cl; g_cxr = cxr;
    g_cpart = (fun k -> try Some (fst (Hashtbl.find ta k)) with Not_found -> None);
    g_cxpart = (fun k -> try Some (fst (Hashtbl.find tb k)) with Not_found -> None);
    g_E = (fun b -> flist b eigs); g_W = (fun b -> flist b ws);
    g_ret = (fun b -> try Hashtbl.find ret b with Not_found -> false) }

let side_s = function SideA -> "A" | SideB -> "B"
let verdict = function
  | WDone _ -> "Done"
  | WPastEnd (s, p) -> Printf.sprintf "PastEnd %s %d" (side_s s) p
  | WOOB (s, p) -> Printf.sprintf "OOB %s %d" (side_s s) p
  | WFuel -> "Fuel"

(* z list and matsubara numbers from a query line starting at token k *)
let parse_zs (t : string array) k =
  let nz = ios t.(k) in
  let zs = List.init nz (fun q -> c (fos t.(k + 1 + 2 * q)) (fos t.(k + 2 + 2 * q))) in
  let p = k + 1 + 2 * nz in
  let ns = if p < Array.length t && t.(p) = "n" then List.init (ios t.(p + 1)) (fun q -> ios t.(p + 2 + q)) else [] in
  (zs, ns)

let all_wf () =
  let ok = ref true in
  let chk tbl = Hashtbl.iter (fun _ (m, (_, compressed)) -> if not (compressed && c_cs_wf_b m) then ok := false) tbl in
  chk csA; chk csB; chk csBR; !ok

(* truncation data of a part from the ghost fields: dropped candidates, and (added term, event) pairs.
   An event is the chain of merges the added term went through (TermList.add_term = the retry loop of TermList.h):
   every step (erased stored term x, reduced term) moves the running sum (pt, rt) to the pole px of x -- error
   |rt| |pt - px| / (|z - pt| |z - px|) -- and continues with the reduced term; a final reduced term that is dropped as
   negligible (or, never, lost because the model's loop bound ran out) is lost entirely. *)
let bound_of dropped (kept : (fc * fc) list) (events : (fc, fc) event list) z =
  let d = List.fold_left (fun acc (p, r) -> acc +. cabs r /. cabs (csub z p)) 0. dropped in
  let m = ref 0. and ng = ref 0. in
  (try List.iter2 (fun (t : fc * fc) ev ->
      match ev with
      | EvChain (steps, fin) ->
        let cur = List.fold_left (fun (pt, rt) ((px, _), red) ->
            m := !m +. cabs rt *. Float.abs (re pt -. re px) /. (cabs (csub z pt) *. cabs (csub z px));
            red) t steps in
        (match fin with
         | FinInserted -> ()
         | FinNegligible | FinFuel -> let (pc, rc) = cur in ng := !ng +. cabs rc /. cabs (csub z pc))) kept events
   with Invalid_argument _ -> ng := infinity);
  (d, !m, !ng)

(* new (inserted at once), merged (one or more merges, the sum inserted), negl (the sum dropped as negligible),
   refused (a term lost otherwise: the loop bound of the model ran out -- excluded by termlist_loop_terminates),
   and the length of the longest chain *)
let count_events evs =
  List.fold_left (fun (a, b, cc, d, mx) e -> match e with
      | EvChain (steps, fin) ->
        let mx = max mx (List.length steps) in
        (match fin, steps with
         | FinInserted, [] -> (a + 1, b, cc, d, mx)
         | FinInserted, _ -> (a, b + 1, cc, d, mx)
         | FinNegligible, _ -> (a, b, cc + 1, d, mx)
         | FinFuel, _ -> (a, b, cc, d + 1, mx))) (0, 0, 0, 0, 0) evs

let kpi = c Float.pi 0.

let gfmodel (t : string array) =
  let (zs, ns) = parse_zs t 1 in
  let tols = c_gf_tols fexp in
  Printf.printf "WF %d\n" (if all_wf () then 1 else 0);
  let g = gfin !mapl !mapr csA csB in
  (match c_gf_compute fexp true false tols g with
   | WDone parts ->
     List.iter (fun ((l, r), _) ->
         let g1 = gfin (List.filter (fun lr -> lr = (l, r)) !mapl) (List.filter (fun rl -> rl = (l, r)) !mapr) csA csB in
         List.iter (fun (name, fx, ln) ->
             Printf.printf "RUN %s %d %d %s\n" name l r (verdict (c_gf_compute fexp fx ln tols g1)))
           [("strict", false, false); ("lenient", false, true); ("fixed", true, false); ("source", c_gf_chase_guarded, true)]) parts;
     Printf.printf "GUARDED %d\n" (if c_gf_chase_guarded then 1 else 0);
     Printf.printf "MPARTS %d%s\n" (List.length parts) (String.concat "" (List.map (fun ((l, r), _) -> Printf.sprintf " %d %d" l r) parts));
     List.iter (fun ((l, r), o) ->
         Printf.printf "MTERMS %d %d %d%s\n" l r (List.length o.o_terms)
           (String.concat "" (List.map (fun (p, rs) -> Printf.sprintf " %s %h" (hc rs) (re p)) o.o_terms));
         let (a, b, cc, d, mx) = count_events o.o_events in
         Printf.printf "MSTAT %d %d %d %d %d %d %d %d %d\n" l r (List.length o.o_raw) (List.length (c_kept o.o_raw))
           (List.length (c_dropped o.o_raw)) a b cc d;
         Printf.printf "MCHAIN %d %d %d\n" l r mx) parts;
     Printf.printf "MVAL G %d%s\n" (List.length zs) (String.concat "" (List.map (fun z -> " " ^ hc (c_gf_value fexp parts z)) zs));
     if ns <> [] then
       Printf.printf "MVALN G %d%s\n" (List.length ns)
         (String.concat "" (List.map (fun n -> Printf.sprintf " %d %s" n (hc (c_gf_value fexp parts (c_gf_matsubara fexp kpi (c !beta 0.) (z_of_int n))))) ns));
     let bnd z = List.fold_left (fun (a, b, cc) (_, o) ->
         let (d, m, ng) = bound_of (c_dropped o.o_raw) (c_kept o.o_raw) o.o_events z in (a +. d, b +. m, cc +. ng)) (0., 0., 0.) parts in
     Printf.printf "MBOUND %d%s\n" (List.length zs)
       (String.concat "" (List.map (fun z -> let (a, b, cc) = bnd z in Printf.sprintf " %h %h %h" a b cc) zs));
     if ns <> [] then
       Printf.printf "MBOUNDN %d%s\n" (List.length ns)
         (String.concat "" (List.map (fun n -> let (a, b, cc) = bnd (c_gf_matsubara fexp kpi (c !beta 0.) (z_of_int n)) in
                                       Printf.sprintf " %d %h %h %h" n a b cc) ns))
   | bad -> Printf.printf "MODELFAIL fixed %s\n" (verdict bad))

let suscmodel (t : string array) =
  let (zs, ns) = parse_zs t 1 in
  let tols = c_susc_tols fexp in
  Printf.printf "WF %d\n" (if all_wf () then 1 else 0);
  let g = gfin !mapl !mapr csA csB in
  let gA = gfin !mapl [] csA csA and gB = gfin !maplb [] csBR csBR in
  let b = c !beta 0. in
  (match c_susc_compute fexp true false tols g with
   | WDone parts ->
     List.iter (fun ((l, r), _) ->
         let g1 = gfin (List.filter (fun lr -> lr = (l, r)) !mapl) (List.filter (fun rl -> rl = (l, r)) !mapr) csA csB in
         List.iter (fun (name, fx, ln) ->
             Printf.printf "RUN %s %d %d %s\n" name l r (verdict (c_susc_compute fexp fx ln tols g1)))
           [("strict", false, false); ("lenient", false, true); ("fixed", true, false); ("source", c_susc_chase_guarded, true)]) parts;
     Printf.printf "GUARDED %d\n" (if c_susc_chase_guarded then 1 else 0);
     Printf.printf "MPARTS %d%s\n" (List.length parts) (String.concat "" (List.map (fun ((l, r), _) -> Printf.sprintf " %d %d" l r) parts));
     List.iter (fun ((l, r), o) ->
         Printf.printf "MTERMS %d %d %d%s\n" l r (List.length o.so_terms)
           (String.concat "" (List.map (fun (p, rs) -> Printf.sprintf " %s %h" (hc rs) (re p)) o.so_terms));
         Printf.printf "MZERO %d %d %s\n" l r (hc o.so_zero);
         let (a, bb, cc, d, mx) = count_events o.so_events in
         Printf.printf "MCHAIN %d %d %d\n" l r mx;
         let nzero = List.length (List.filter (function SZero _ -> true | _ -> false) o.so_raw) in
         Printf.printf "MSTAT %d %d %d %d %d %d %d %d %d %d\n" l r (List.length o.so_raw) (List.length (c_s_kept o.so_raw))
           (List.length (c_s_dropped o.so_raw)) a bb cc d nzero) parts;
     let (aveA, aveB) = c_supplied fexp gA gB SupplyInternal in
     Printf.printf "MAVG %s %s\n" (hc aveA) (hc aveB);
     (* the three ways: internal; caller's objects (one already prepared, one fresh); numbers *)
     let s1 = c_supplied fexp gA gB SupplyInternal in
     let s2 = c_supplied fexp gA gB (SupplyObjects (c_ea_prepare fexp gA (c_ea_new fexp), c_ea_new fexp)) in
     let s3 = c_supplied fexp gA gB (SupplyNumbers (aveA, aveB)) in
     List.iter (fun (tag, sub) ->
         Printf.printf "MVAL %s %d%s\n" tag (List.length zs) (String.concat "" (List.map (fun z -> " " ^ hc (c_susc_value fexp parts sub b z)) zs));
         if ns <> [] then
           Printf.printf "MVALN %s %d%s\n" tag (List.length ns)
             (String.concat "" (List.map (fun n -> Printf.sprintf " %d %s" n (hc (c_susc_value fexp parts sub b (c_susc_matsubara fexp kpi b (z_of_int n))))) ns)))
       [("S0", None); ("S1", Some s1); ("S2", Some s2); ("S3", Some s3)];
     let bnd z = List.fold_left (fun (a, bb, cc) (_, o) ->
         let (d, m, ng) = bound_of (c_s_dropped o.so_raw) (c_s_kept o.so_raw) o.so_events z in (a +. d, bb +. m, cc +. ng)) (0., 0., 0.) parts in
     if ns <> [] then
       Printf.printf "MBOUNDN %d%s\n" (List.length ns)
         (String.concat "" (List.map (fun n -> let (a, bb, cc) = bnd (c_susc_matsubara fexp kpi b (z_of_int n)) in
                                       Printf.sprintf " %d %h %h %h" n a bb cc) ns))
   | bad -> Printf.printf "MODELFAIL fixed %s\n" (verdict bad))

(* ---- (B) full-space oracle: glue copied from driver_ed.ml ---- *)
let n = ref 0
let hpoly : (monomial * fc) list ref = ref []
let blocks : (int, int array) Hashtbl.t = Hashtbl.create 16
let vecs : (int, fc array array) Hashtbl.t = Hashtbl.create 16
let dim () = 1 lsl !n
let evals : fc list ref = ref []
let wspec : fc list ref = ref []
let umat : fc list list ref = ref []
let cache : (string, fc list list) Hashtbl.t = Hashtbl.create 64

let assemble () =
  let d = dim () in
  let u = Array.make_matrix d d (c 0. 0.) in
  let ev = ref [] in
  let g = ref 0 in
  for b = 0 to !nblocks - 1 do
    let st = Hashtbl.find blocks b and v = Hashtbl.find vecs b and e = Hashtbl.find eigs b in
    Array.iteri (fun k ek ->
      Array.iteri (fun r s -> u.(s).(!g) <- v.(r).(k)) st;
      ev := c ek 0. :: !ev; incr g) e
  done;
  evals := List.rev !ev;
  umat := Array.to_list (Array.map Array.to_list u);
  wspec := c_weights fexp (c !beta 0.) !evals;
  Hashtbl.reset cache

let opmat kind i =
  let key = kind ^ string_of_int i in
  try Hashtbl.find cache key with Not_found ->
    let o = if kind = "c" then cann i else cdag i in
    let m = c_rotate fexp (dim ()) !umat (c_op_matrix fexp !n o) in
    Hashtbl.add cache key m; m
let quad i j =
  let key = Printf.sprintf "q%d_%d" i j in
  try Hashtbl.find cache key with Not_found ->
    let m = c_mmul fexp (dim ()) (opmat "cdag" i) (opmat "c" j) in
    Hashtbl.add cache key m; m

let matsubara_f k = c 0. ((Float.pi /. !beta) *. float_of_int (2 * k + 1))
let matsubara_b k = c 0. ((Float.pi /. !beta) *. float_of_int (2 * k))
let tolM = c (1e-8 *. (1. +. 1e-6)) 0.     (* terms within rounding of the threshold count as possibly dropped *)
let tolC = c 1e-8 0.
let tolR = c 1e-8 0.

let gfbound (t : string array) =
  let i = ios t.(1) and j = ios t.(2) in
  let (zs, ns) = parse_zs t 3 in
  let terms = c_gf_lehmann fexp !evals !wspec (opmat "c" i) (opmat "cdag" j) in
  let wd = c_with_delta fexp tolM tolC terms in
  let b z = Printf.sprintf "%h %h %h" (re (c_dropped_bound fexp tolM terms z)) (re (c_merge_bound fexp wd z))
      (re (c_dropped_bound fexp (c 1e300 0.) terms z)) in
  Printf.printf "GFBOUND %d %d %d%s\n" i j (List.length zs) (String.concat "" (List.map (fun z -> " " ^ b z) zs));
  if ns <> [] then
    Printf.printf "GFBOUNDN %d%s\n" (List.length ns) (String.concat "" (List.map (fun k -> Printf.sprintf " %d %s" k (b (matsubara_f k))) ns))

let suscbound (t : string array) =
  let a = ios t.(1) and b = ios t.(2) and cc = ios t.(3) and d = ios t.(4) in
  let k = ios t.(5) in
  let ns = List.init k (fun q -> ios t.(6 + q)) in
  let l = c_susc_lehmann fexp !evals !wspec (quad a b) (quad cc d) in
  let terms = c_susc_terms fexp tolR l in
  let wd = c_with_delta fexp tolM tolC terms in
  Printf.printf "SUSCBOUNDN %d%s\n" k
    (String.concat "" (List.map (fun nn ->
         let z = matsubara_b nn in
         Printf.sprintf " %d %h %h %h %h" nn (re (c_dropped_bound fexp tolM terms z)) (re (c_merge_bound fexp wd z))
           (re (c_resonance_bound fexp (c !beta 0.) tolR l z (nn = 0))) (re (c_dropped_bound fexp (c 1e300 0.) terms z))) ns))

let susctaubound (t : string array) =
  let a = ios t.(1) and b = ios t.(2) and cc = ios t.(3) and d = ios t.(4) in
  let l = c_susc_lehmann fexp !evals !wspec (quad a b) (quad cc d) in
  let terms = c_susc_terms fexp tolR l in
  let wd = c_with_delta fexp tolM tolC terms in
  Printf.printf "SUSCTAUBOUND %h %h\n" (re (c_tau_dropped_bound fexp (c !beta 0.) tolM terms)) (re (c_tau_merge_bound fexp (c !beta 0.) wd))

let susctauspec (t : string array) =
  let a = ios t.(1) and b = ios t.(2) and cc = ios t.(3) and d = ios t.(4) in
  Printf.printf "SUSCTAUSPEC %d %d %d %d" a b cc d;
  for k = 5 to Array.length t - 1 do
    Printf.printf " %s" (hc (c_susc_tau_safe fexp (c !beta 0.) !evals (quad a b) (quad cc d) (c (fos t.(k)) 0.)))
  done; print_newline ()

let handle (t : string array) =
  let a k = t.(k) in
  match a 0 with
  | "BUILT" -> Hashtbl.reset eigs; Hashtbl.reset ws; Hashtbl.reset ret; Hashtbl.reset blocks; Hashtbl.reset vecs
  | "NBLOCKS" -> nblocks := ios (a 1)
  | "BETA" -> beta := fos (a 1)
  | "EIG" -> Hashtbl.replace eigs (ios (a 1)) (Array.init (Array.length t - 2) (fun k -> fos (a (2 + k))))
  | "W" -> Hashtbl.replace ws (ios (a 1)) (Array.init (Array.length t - 2) (fun k -> fos (a (2 + k))))
  | "RET" -> Hashtbl.replace ret (ios (a 1)) (a 2 = "1")
  | "GFRAW" | "SUSCRAW" -> Hashtbl.reset csA; Hashtbl.reset csB; Hashtbl.reset csBR; mapl := []; mapr := []; maplb := []
  | "MAPL" -> mapl := pairs_of t 1
  | "MAPR" -> mapr := pairs_of t 1
  | "MAPLB" -> maplb := pairs_of t 1
  | "CS" ->
    let (which, key, m, info) = parse_cs t in
    Hashtbl.replace (if which = "A" then csA else if which = "B" then csB else csBR) key (m, info)
  | "gfmodel" -> gfmodel t
  | "suscmodel" -> suscmodel t
  (* (B) *)
  | "N" -> n := ios (a 1)
  | "HPOLY" ->
    let nt = ios (a 1) in
    let p = ref 2 and acc = ref [] in
    for _ = 1 to nt do
      let coef = c (fos (a !p)) (fos (a (!p + 1))) in
      let len = ios (a (!p + 2)) in
      p := !p + 3;
      let m = ref [] in
      for _ = 1 to len do
        let dag = ios (a !p) and ix = ios (a (!p + 1)) in
        m := (if dag = 1 then cdag ix else cann ix) :: !m; p := !p + 2
      done;
      acc := (List.rev !m, coef) :: !acc
    done;
    hpoly := List.rev !acc
  | "BLOCK" -> Hashtbl.replace blocks (ios (a 1)) (Array.init (ios (a 2)) (fun k -> ios (a (3 + k))))
  | "VEC" ->
    let b = ios (a 1) and s = ios (a 2) in
    Hashtbl.replace vecs b (Array.init s (fun r -> Array.init s (fun k -> c (fos (a (3 + 2 * (r * s + k)))) (fos (a (4 + 2 * (r * s + k)))))))
  | "ENDDUMP" -> assemble ()
  | "gfbound" -> gfbound t
  | "suscbound" -> suscbound t
  | "susctaubound" -> susctaubound t
  | "susctauspec" -> susctauspec t
  | _ -> ()

let () =
  try
    while true do
      let line = input_line stdin in
      let t = Array.of_list (List.filter (fun s -> s <> "") (String.split_on_char ' ' (String.trim line))) in
      if Array.length t > 0 then begin
        (try handle t with
         | Not_found -> Printf.printf "DRIVER-ERROR Not_found %s\n" t.(0)
         | Invalid_argument m | Failure m -> Printf.printf "DRIVER-ERROR %s %s\n" m t.(0));
        flush stdout
      end
    done
  with End_of_file -> ()
