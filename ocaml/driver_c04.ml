(* Driver for the C04 correspondence check (extracted PV.Lattice + PV.IndexHam + PV.PresetsSpec via PV.PresetsExec).

   stdin: any number of cases, each

     case <id> <q|c> <su2 0|1>        q: real build (coefficients Q, conj = identity); c: complex build (Gaussian rationals)
     n <N>                            number of modes (IndexSize)
     info <label> <orbital> <spin> <index>          one per INFO record of the library's dump (the real index map)
     site <label> <orbitals> <spins>                the scenario, syntax of harness/ed_common.h, every amplitude an exact
     addCoulombS ... | ... | term <N> <value> ...   rational p/q (complex build: p/q,p/q), never a decimal
     H <dim> <2*dim*dim rationals>    the implementation's Fock matrix, row-major, rows/columns in NATURAL order of the
                                      Fock-state number (row r = <r|, column c = |c>), entries re im
     end

   stdout, per case:
     == <id>
     CONFIG <fixed 0|1> <mag_half 0|1> <doc_half 0|1>      the configuration the translator read from the source text and the header
                                      (extracted PresetsConfig.cfg_fixed / cfg_mag_half / cfg_doc_half); the documented operator below
                                      is evaluated with doc_half (PresetsSpec.spec_magnetization)
     RES <outcome of every call in the repaired model: ok | ex<code> | oob | uninit | fuel>
     POLY <fixed 0|1><mag_half 0|1> <n> { <re> <im> <len> { <dag 1|0> <index> } }    the model's IndexHamiltonian polynomial in map
        order, for the four model variants (or  POLY <variant> FAIL <outcome>)
     SPEC <number of entries where H differs from the documented operator> { <r> <c> <H re> <H im> <spec re> <spec im> } (first 6)
     HERM <number of entries with H[r][c] <> conj H[c][r]> { <r> <c> } (first 6)
     SU2 <+|-> <number of non-zero entries of [H, S^+-_tot]> { <r> <c> <re> <im> } (first 3)        only when su2 = 1
     MODELSPEC <for each model variant 00 10 01 11: number of entries where the matrix of that variant's polynomial differs
                                      from the documented operator, -1 if the variant fails>      printed only when SPEC is not 0
     SPECSYM <0|1>                    whether the documented operator itself is Hermitian (diagnostic)
   All comparisons are exact (extracted Qeq_bool on reduced fractions).  The glue below only parses, calls the extracted
   functions, multiplies dense arrays with the extracted ring operations, and prints. *)
open C04_model

let rec pos_of_int n = if n = 1 then XH else if n land 1 = 0 then XO (pos_of_int (n lsr 1)) else XI (pos_of_int (n lsr 1))
let z_of_int n = if n = 0 then Z0 else if n > 0 then Zpos (pos_of_int n) else Zneg (pos_of_int (-n))
let rec int_of_pos = function XH -> 1 | XO p -> 2 * int_of_pos p | XI p -> 2 * int_of_pos p + 1
let int_of_z = function Z0 -> 0 | Zpos p -> int_of_pos p | Zneg p -> - (int_of_pos p)

(* "p/q" or "p" *)
let q_of_string s =
  match String.index_opt s '/' with
  | Some i -> qred { qnum = z_of_int (int_of_string (String.sub s 0 i));
                     qden = pos_of_int (int_of_string (String.sub s (i+1) (String.length s - i - 1))) }
  | None -> { qnum = z_of_int (int_of_string s); qden = XH }
let string_of_q q = let n = int_of_z q.qnum and d = int_of_pos q.qden in if d = 1 then string_of_int n else Printf.sprintf "%d/%d" n d
let zero_q = { qnum = Z0; qden = XH }
(* "re" or "re,im" *)
let c_of_string s =
  match String.index_opt s ',' with
  | Some i -> (q_of_string (String.sub s 0 i), q_of_string (String.sub s (i+1) (String.length s - i - 1)))
  | None -> (q_of_string s, zero_q)
let string_of_c (a, b) = string_of_q a ^ " " ^ string_of_q b

let tbl : (string, int) Hashtbl.t = Hashtbl.create 16
let lab s = match Hashtbl.find_opt tbl s with
  | Some n -> n
  | None -> let n = Hashtbl.length tbl in Hashtbl.add tbl s n; n

let i = int_of_string

(* a scenario line as a model operation; v parses an amplitude *)
let op_of_tokens v (t : string list) =
  match t with
  | ["site"; l; a; b] -> AddSite (lab l, i a, i b)
  | "term" :: n :: value :: rest ->
    let n = i n in
    let rec go k r = if k = 0 then [] else match r with
      | o :: l :: a :: b :: r' -> (o <> "0", lab l, i a, i b) :: go (k - 1) r'
      | _ -> failwith "term" in
    let items = go n rest in
    AddTerm { t_ops = List.map (fun (o, _, _, _) -> o) items; t_labels = List.map (fun (_, l, _, _) -> l) items;
              t_orbs = List.map (fun (_, _, a, _) -> a) items; t_spins = List.map (fun (_, _, _, b) -> b) items;
              t_val = v value }
  | ["addCoulombS"; l; u; e] -> Preset (PCoulombS (lab l, v u, v e))
  | ["addCoulombP"; l; u; up; j; e] -> Preset (PCoulombP (lab l, v u, v up, v j, v e))
  | ["addCoulombP3"; l; u; j; e] -> Preset (PCoulombP3 (lab l, v u, v j, v e))
  | ["addLevel"; l; e] -> Preset (PLevel (lab l, v e))
  | ["addMagnetization"; l; m] -> Preset (PMagnetization (lab l, v m))
  | ["addSzSz"; a; b; j] -> Preset (PSzSz (lab a, lab b, v j))
  | ["addSS"; a; b; j] -> Preset (PSS (lab a, lab b, v j))
  | ["addHopping8"; a; b; x; o1; o2; s1; s2] -> Preset (PHopping8 (lab a, lab b, v x, i o1, i o2, i s1, i s2))
  | ["addHopping7"; a; b; x; o1; o2; s] -> Preset (PHopping7 (lab a, lab b, v x, i o1, i o2, i s))
  | ["addHopping6"; a; b; x; o1; o2] -> Preset (PHopping6 (lab a, lab b, v x, i o1, i o2))
  | ["addHopping4"; a; b; x] -> Preset (PHopping4 (lab a, lab b, v x))
  | _ -> failwith ("unknown scenario line: " ^ String.concat " " t)

let tokens line = List.filter (fun w -> w <> "") (String.split_on_char ' ' (String.trim line))

let string_of_outcome = function
  | Done _ -> "ok" | Throws c -> Printf.sprintf "ex%d" c | OOB -> "oob" | Uninit -> "uninit" | OutOfFuel -> "fuel"

(* a polynomial in HPOLY layout; Fock.op = (is_annihilation, index) *)
let print_poly tag to_c (r : (op0 list * 'k) list outcome) =
  match r with
  | Done p ->
    Printf.printf "POLY %s %d" tag (List.length p);
    List.iter (fun (m, c) ->
        Printf.printf " %s %d" (string_of_c (to_c c)) (List.length m);
        List.iter (fun (ann, ix) -> Printf.printf " %d %d" (if ann then 0 else 1) ix) m) p;
    print_newline ()
  | o -> Printf.printf "POLY %s FAIL %s\n" tag (string_of_outcome o)

let to_array to_c (l : 'k list list) : qC array array = Array.of_list (List.map (fun r -> Array.of_list (List.map to_c r)) l)

(* [a, b] = a b - b a on dense arrays of Gaussian rationals, with the extracted ring operations; zero factors are skipped *)
let commutator (a : qC array array) (b : qC array array) =
  let d = Array.length a in
  let nz = Array.map (Array.map (fun x -> not (czero x))) in
  let za = nz a and zb = nz b in
  Array.init d (fun r -> Array.init d (fun c ->
      let acc = ref c0 in
      for u = 0 to d - 1 do
        if za.(r).(u) && zb.(u).(c) then acc := cadd !acc (cmul a.(r).(u) b.(u).(c));
        if zb.(r).(u) && za.(u).(c) then acc := csub !acc (cmul b.(r).(u) a.(u).(c))
      done; !acc))

let report_nonzero tag (m : qC array array) =
  let d = Array.length m in
  let n = ref 0 and first = Buffer.create 64 in
  for r = 0 to d - 1 do for c = 0 to d - 1 do
      if not (czero m.(r).(c)) then begin
        incr n; if !n <= 3 then Buffer.add_string first (Printf.sprintf " %d %d %s" r c (string_of_c m.(r).(c))) end
    done done;
  Printf.printf "%s %d%s\n" tag !n (Buffer.contents first)

type case = { id : string; cplx : bool; su2 : bool; mutable n : int; mutable info : (((int * int) * int) * int) list;
              mutable lines : string list list; mutable h : qC array array }

let finish (cs : case) =
  Printf.printf "== %s\n" cs.id;
  let b x = if x then 1 else 0 in
  Printf.printf "CONFIG %d %d %d\n" (b cfg_fixed) (b cfg_mag_half) (b cfg_doc_half);
  let m = cs.n and tb = List.rev cs.info and lines = List.rev cs.lines in
  let dim = 1 lsl m in
  if Array.length cs.h <> dim then Printf.printf "BAD matrix dimension %d for %d modes\n" (Array.length cs.h) m
  else begin
    let variants = [ ("00", false, false); ("10", true, false); ("01", false, true); ("11", true, true) ] in
    let spec, splus, sminus, repaired_table =
      if cs.cplx then begin
        let hist : cop list = List.map (op_of_tokens c_of_string) lines in
        Printf.printf "RES %s\n" (String.concat " " (List.map string_of_outcome (c_model_results repaired hist)));
        let poly f g = c_model_poly tb m repaired f g hist in
        List.iter (fun (tag, f, g) -> print_poly tag (fun c -> c) (poly f g)) variants;
        let id c = c in
        (to_array id (c_spec_table tb m hist),
         (if cs.su2 then to_array id (c_splus_table tb m repaired hist) else [||]),
         (if cs.su2 then to_array id (c_sminus_table tb m repaired hist) else [||]),
         (fun f g -> match poly f g with Done p -> Some (to_array id (c_poly_table m p)) | _ -> None))
      end else begin
        let hist : qop list = List.map (op_of_tokens q_of_string) lines in
        Printf.printf "RES %s\n" (String.concat " " (List.map string_of_outcome (q_model_results repaired hist)));
        let poly f g = q_model_poly tb m repaired f g hist in
        List.iter (fun (tag, f, g) -> print_poly tag c_of_q (poly f g)) variants;
        (to_array c_of_q (q_spec_table tb m hist),
         (if cs.su2 then to_array c_of_q (q_splus_table tb m repaired hist) else [||]),
         (if cs.su2 then to_array c_of_q (q_sminus_table tb m repaired hist) else [||]),
         (fun f g -> match poly f g with Done p -> Some (to_array c_of_q (q_poly_table m p)) | _ -> None))
      end in
    (* (b) documented operator *)
    let nb = ref 0 and fb = Buffer.create 128 in
    for r = 0 to dim - 1 do for c = 0 to dim - 1 do
        if not (ceqb cs.h.(r).(c) spec.(r).(c)) then begin
          incr nb;
          if !nb <= 6 then Buffer.add_string fb (Printf.sprintf " %d %d %s %s" r c (string_of_c cs.h.(r).(c)) (string_of_c spec.(r).(c))) end
      done done;
    Printf.printf "SPEC %d%s\n" !nb (Buffer.contents fb);
    (* every model variant judged by the same clause *)
    if !nb <> 0 then begin
      print_string "MODELSPEC";
      List.iter (fun (_, f, g) ->
          match repaired_table f g with
          | None -> print_string " -1"
          | Some a ->
            let n = ref 0 in
            for r = 0 to dim - 1 do for c = 0 to dim - 1 do if not (ceqb a.(r).(c) spec.(r).(c)) then incr n done done;
            Printf.printf " %d" !n) variants;
      print_newline ()
    end;
    (* (c) Hermiticity of the implementation's matrix *)
    let nh = ref 0 and fh = Buffer.create 64 and specsym = ref true in
    for r = 0 to dim - 1 do for c = 0 to dim - 1 do
        if not (ceqb cs.h.(r).(c) (cconj cs.h.(c).(r))) then begin
          incr nh; if !nh <= 6 then Buffer.add_string fh (Printf.sprintf " %d %d" r c) end;
        if not (ceqb spec.(r).(c) (cconj spec.(c).(r))) then specsym := false
      done done;
    Printf.printf "HERM %d%s\n" !nh (Buffer.contents fh);
    Printf.printf "SPECSYM %d\n" (if !specsym then 1 else 0);
    (* (d) commutators with the total-spin ladder operators *)
    if cs.su2 then begin
      report_nonzero "SU2 +" (commutator cs.h splus);
      report_nonzero "SU2 -" (commutator cs.h sminus)
    end
  end;
  flush stdout

let () =
  let cur = ref None in
  (try while true do
      let line = input_line stdin in
      match tokens line, !cur with
      | [], _ -> ()
      | ["case"; id; k; su2], _ ->
        Hashtbl.reset tbl;
        cur := Some { id; cplx = (k = "c"); su2 = (su2 = "1"); n = 0; info = []; lines = []; h = [||] }
      | ["n"; n], Some cs -> cs.n <- i n
      | ["info"; l; a; z; ix], Some cs -> cs.info <- (((lab l, i a), i z), i ix) :: cs.info
      | "H" :: d :: rest, Some cs ->
        let d = i d in
        let a = Array.of_list rest in
        if Array.length a <> 2 * d * d then failwith "H: wrong number of entries";
        cs.h <- Array.init d (fun r -> Array.init d (fun c ->
            (q_of_string a.(2 * (r * d + c)), q_of_string a.(2 * (r * d + c) + 1))))
      | ["end"], Some cs ->
        (try finish cs with e -> Printf.printf "DRIVER-ERROR %s\n" (Printexc.to_string e); flush stdout);
        cur := None
      | t, Some cs -> cs.lines <- t :: cs.lines
      | _, None -> ()
    done with End_of_file -> ())
