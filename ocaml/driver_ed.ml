(* Oracle driver: reads the dump of harness/h_ed.cpp (records after "BUILT") followed by the same query lines
   the harness answered, and answers them from the extracted specification (PV.EDSpec at binary64 complex
   numbers) on the FULL Fock space.  Hand-written glue: parsing, assembling the global eigenvector matrix
   from the dumped blocks, printing.  All mathematics is in the extracted code. *)
open ED_model

let fexp (x : Float64.t) : Float64.t = Float64.of_float (Stdlib.exp (Float64.to_float x))
let fl x = Float64.of_float x
let tf x = Float64.to_float x
let c re im : fc = (fl re, fl im)
let re (z : fc) = tf (fst z)
let im (z : fc) = tf (snd z)
let hc z = Printf.sprintf "%h %h" (re z) (im z)
let fos = float_of_string
let ios = int_of_string

let n = ref 0
let hpoly : (monomial * fc) list ref = ref []
let blocks : (int, int array) Hashtbl.t = Hashtbl.create 16      (* block -> Fock state labels *)
let vecs : (int, fc array array) Hashtbl.t = Hashtbl.create 16   (* block -> matrix [fock pos][eig index] *)
let eigs : (int, float array) Hashtbl.t = Hashtbl.create 16
let ws : (int, float array) Hashtbl.t = Hashtbl.create 16
let nblocks = ref 0
let beta = ref 1.0
let built = ref false

(* derived *)
let dim () = 1 lsl !n
let evals : fc list ref = ref []        (* global eigenvalue list, block after block *)
let wdump : fc list ref = ref []        (* dumped weights in the same order *)
let wspec : fc list ref = ref []
let umat : fc list list ref = ref []    (* rows = Fock states 0..dim-1, cols = global eigen index *)
let hfull : fc list list ref = ref []
let cache : (string, fc list list) Hashtbl.t = Hashtbl.create 64

let assemble () =
  let d = dim () in
  let u = Array.make_matrix d d (c 0. 0.) in
  let ev = ref [] and wd = ref [] in
  let g = ref 0 in
  for b = 0 to !nblocks - 1 do
    let st = Hashtbl.find blocks b and v = Hashtbl.find vecs b and e = Hashtbl.find eigs b in
    let w = try Hashtbl.find ws b with Not_found -> Array.make (Array.length e) 0.0 in
    Array.iteri (fun k ek ->
      Array.iteri (fun r s -> u.(s).(!g) <- v.(r).(k)) st;
      ev := c ek 0. :: !ev; wd := c w.(k) 0. :: !wd; incr g) e
  done;
  evals := List.rev !ev; wdump := List.rev !wd;
  umat := Array.to_list (Array.map Array.to_list u);
  hfull := f_poly_matrix fexp !n !hpoly;
  wspec := f_weights fexp (c !beta 0.) !evals;
  Hashtbl.reset cache

let opmat kind i =
  let key = kind ^ string_of_int i in
  try Hashtbl.find cache key with Not_found ->
    let o = if kind = "c" then cann i else cdag i in
    let m = f_rotate fexp (dim ()) !umat (f_op_matrix fexp !n o) in
    Hashtbl.add cache key m; m
let quad i j =   (* c^+_i c_j in the eigenbasis *)
  let key = Printf.sprintf "q%d_%d" i j in
  try Hashtbl.find cache key with Not_found ->
    let m = f_mmul fexp (dim ()) (opmat "cdag" i) (opmat "c" j) in
    Hashtbl.add cache key m; m

let matsubara_f k = c 0. ((Float.pi /. !beta) *. float_of_int (2 * k + 1))
let matsubara_b k = c 0. ((Float.pi /. !beta) *. float_of_int (2 * k))
(* which weights the observables use: the spec's own (default) *)
let w () = !wspec
let tol = c 1e-8 0.

let handle (t : string array) =
  let a k = t.(k) in
  match a 0 with
  | "N" -> n := ios (a 1)
  | "HPOLY" ->
    let nt = ios (a 1) in
    let p = ref 2 and acc = ref [] in
    for _ = 1 to nt do
      let coef = c (fos (a !p)) (fos (a (!p + 1))) in
      let len = ios (a (!p + 2)) in
      p := !p + 3;
      let m = ref [] in
      for _ = 1 to len do
        let dag = ios (a !p) and ix = ios (a (!p + 1)) in
        m := (if dag = 1 then cdag ix else cann ix) :: !m; p := !p + 2
      done;
      acc := (List.rev !m, coef) :: !acc
    done;
    hpoly := List.rev !acc
  | "NBLOCKS" -> nblocks := ios (a 1)
  | "BLOCK" -> Hashtbl.replace blocks (ios (a 1)) (Array.init (ios (a 2)) (fun k -> ios (a (3 + k))))
  | "VEC" ->
    let b = ios (a 1) and s = ios (a 2) in
    Hashtbl.replace vecs b (Array.init s (fun r -> Array.init s (fun k -> c (fos (a (3 + 2 * (r * s + k)))) (fos (a (4 + 2 * (r * s + k)))))))
  | "EIG" -> Hashtbl.replace eigs (ios (a 1)) (Array.init (Array.length t - 2) (fun k -> fos (a (2 + k))))
  | "BETA" -> beta := fos (a 1)
  | "W" -> Hashtbl.replace ws (ios (a 1)) (Array.init (Array.length t - 2) (fun k -> fos (a (2 + k))))
  | "BUILT" -> Hashtbl.reset blocks; Hashtbl.reset vecs; Hashtbl.reset eigs; Hashtbl.reset ws; built := false
  | "ENDDUMP" ->
    assemble (); built := true;
    let d = dim () in
    Printf.printf "CERT %h %h\n" (re (f_residual_HU fexp d !hfull !umat !evals)) (re (f_residual_unitary fexp d !umat));
    Printf.printf "WSPEC %s\n" (String.concat " " (List.map (fun z -> Printf.sprintf "%h" (re z)) !wspec))
  | "gf" | "gfc" ->
    let i = ios (a 1) and j = ios (a 2) and nz = ios (a 3) in
    let ci = opmat "c" i and cxj = opmat "cdag" j in
    Printf.printf "%s %d %d" (if a 0 = "gf" then "G" else "GC") i j;
    for k = 0 to nz - 1 do
      Printf.printf " %s" (hc (f_gf fexp !evals (w ()) ci cxj (c (fos (a (4 + 2 * k))) (fos (a (5 + 2 * k))))))
    done; print_newline ()
  | "gfn" ->
    let i = ios (a 1) and j = ios (a 2) in
    let ci = opmat "c" i and cxj = opmat "cdag" j in
    Printf.printf "GN %d %d" i j;
    for k = 3 to Array.length t - 1 do
      Printf.printf " %s %s" (a k) (hc (f_gf fexp !evals (w ()) ci cxj (matsubara_f (ios (a k)))))
    done; print_newline ()
  | "gftau" ->
    let i = ios (a 1) and j = ios (a 2) in
    let ci = opmat "c" i and cxj = opmat "cdag" j in
    Printf.printf "GTAU %d %d" i j;
    for k = 3 to Array.length t - 1 do
      Printf.printf " %s" (hc (f_gf_tau fexp !evals (w ()) ci cxj (c (fos (a k)) 0.)))
    done; print_newline ()
  | "dm" ->
    Printf.printf "DM %h" (re (f_avg_energy fexp (w ()) !evals));
    let occ = List.init !n (fun i -> re (f_trace_rho fexp (w ()) (quad i i))) in
    Printf.printf " %h" (List.fold_left (+.) 0. occ);
    List.iter (fun x -> Printf.printf " %h" x) occ; print_newline ();
    print_string "DOCC";
    for i = 0 to !n - 1 do for j = 0 to !n - 1 do
      Printf.printf " %h" (re (f_trace_rho fexp (w ()) (f_mmul fexp (dim ()) (quad i i) (quad j j))))
    done done; print_newline ()
  | "avg" ->
    let i = ios (a 1) and j = ios (a 2) in
    Printf.printf "AVG %d %d %s\n" i j (hc (f_trace_rho fexp (w ()) (quad i j)))
  | "susc" ->
    let a' = ios (a 1) and b = ios (a 2) and cc = ios (a 3) and d = ios (a 4) and mode = ios (a 5) in
    let am = quad a' b and bm = quad cc d in
    let avA = f_trace_rho fexp (w ()) am and avB = f_trace_rho fexp (w ()) bm in
    Printf.printf "SUSC %d %d %d %d %d" a' b cc d mode;
    for k = 6 to Array.length t - 1 do
      let nn = ios (a k) in
      let v = f_susc fexp (c !beta 0.) tol !evals (w ()) am bm (matsubara_b nn) (nn = 0) in
      let v = if mode <> 0 && nn = 0 then (fl (re v -. !beta *. (re avA *. re avB -. im avA *. im avB)),
                                            fl (im v -. !beta *. (re avA *. im avB +. im avA *. re avB))) else v in
      Printf.printf " %d %s" nn (hc v)
    done; print_newline ();
    Printf.printf "SUSCAVG %s %s\n" (hc avA) (hc avB)
  | "susctau" ->
    let a' = ios (a 1) and b = ios (a 2) and cc = ios (a 3) and d = ios (a 4) and mode = ios (a 5) in
    let am = quad a' b and bm = quad cc d in
    let avA = f_trace_rho fexp (w ()) am and avB = f_trace_rho fexp (w ()) bm in
    Printf.printf "SUSCTAU %d %d %d %d %d" a' b cc d mode;
    for k = 6 to Array.length t - 1 do
      let v = f_susc_tau fexp !evals (w ()) am bm (c (fos (a k)) 0.) in
      let v = if mode <> 0 then (fl (re v -. (re avA *. re avB -. im avA *. im avB)),
                                 fl (im v -. (re avA *. im avB +. im avA *. re avB))) else v in
      Printf.printf " %s" (hc v)
    done; print_newline ()
  | "chi" ->
    let i = ios (a 1) and j = ios (a 2) and k = ios (a 3) and l = ios (a 4) and nf = ios (a 6) in
    Printf.printf "CHI %d %d %d %d" i j k l;
    for f = 0 to nf - 1 do
      let z q = matsubara_f (ios (a (7 + 3 * f + q))) in
      Printf.printf " %s" (hc (f_chi fexp (c !beta 0.) tol !evals (w ()) (opmat "c" i) (opmat "c" j) (opmat "cdag" k) (opmat "cdag" l) (z 0) (z 1) (z 2)))
    done; print_newline ()
  | "chiz" ->
    let i = ios (a 1) and j = ios (a 2) and k = ios (a 3) and l = ios (a 4) and nz = ios (a 5) in
    Printf.printf "CHIZ %d %d %d %d" i j k l;
    for f = 0 to nz - 1 do
      let z q = c (fos (a (6 + 6 * f + 2 * q))) (fos (a (7 + 6 * f + 2 * q))) in
      Printf.printf " %s" (hc (f_chi fexp (c !beta 0.) tol !evals (w ()) (opmat "c" i) (opmat "c" j) (opmat "cdag" k) (opmat "cdag" l) (z 0) (z 1) (z 2)))
    done; print_newline ()
  | "opfull" ->
    (* eigenbasis matrix of c / cdag i: all entries, row-major, for comparison with the dumped sparse blocks *)
    let m = opmat (a 1) (ios (a 2)) in
    Printf.printf "OPFULL %s %s" (a 1) (a 2);
    List.iter (fun r -> List.iter (fun z -> Printf.printf " %s" (hc z)) r) m; print_newline ()
  | "hfull" ->
    print_string "HFULL";
    List.iter (fun r -> List.iter (fun z -> Printf.printf " %s" (hc z)) r) !hfull; print_newline ()
  | _ -> ()

let () =
  try
    while true do
      let line = input_line stdin in
      let t = Array.of_list (List.filter (fun s -> s <> "") (String.split_on_char ' ' (String.trim line))) in
      if Array.length t > 0 then begin
        (try handle t with
         | Not_found -> Printf.printf "ORACLE-ERROR Not_found %s\n" t.(0)
         | Invalid_argument m | Failure m -> Printf.printf "ORACLE-ERROR %s %s\n" m t.(0));
        flush stdout
      end
    done
  with End_of_file -> ()
