(* C09 / C19 correspondence driver: reads the dump of harness/h_ed.cpp (N, NBLOCKS, BLOCK, VEC, EIG, BETA; the
   dumped GROUND / W / RET are NOT read: they are what the model's output is compared with), an optional
   TRUNC <eps> line, ENDDUMP, then query lines, and answers from the extracted model PV.Thermal (C09_model)
   at binary64.  Hand-written glue: parsing, sorting a bimap by its right key, printing.  Records:
     MGROUND g | MW b w... | MZPART b z | MRET b 0|1            after ENDDUMP
     dm                      -> DM / DOCC / WSTATE / ESTATE / EALL   (formats of h_ed)
     OPMAP / OPMAT kind id   -> stored (as printed by h_ed's dump and its `quad` query)
     avg i j                 -> AVG i j re im          (needs OPMAP/OPMAT quad <100 i + j>)
     gfparts i j             -> MGFPARTS i j n (outer inner)...      (needs OPMAP c i, OPMAP cdag j)
     suscparts a b c d       -> MSUSCPARTS a b c d n (outer inner)...  (needs OPMAP quad of both)
     chiparts i j k l        -> MCHIPARTS i j k l n                    (needs OPMAP c i, c j, cdag k, cdag l) *)
open C09_model

let fexp (x : Float64.t) : Float64.t = Float64.of_float (Stdlib.exp (Float64.to_float x))
let fl x = Float64.of_float x
let tf x = Float64.to_float x
let c re im : fc = (fl re, fl im)
let re (z : fc) = tf (fst z)
let im (z : fc) = tf (snd z)
let fos = float_of_string
let ios = int_of_string

let n = ref 0
let nblocks = ref 0
let beta = ref 1.0
let trunc : float option ref = ref None
let blocks : (int, int list) Hashtbl.t = Hashtbl.create 16
let vecs : (int, fc list list) Hashtbl.t = Hashtbl.create 16
let eigs : (int, fc list) Hashtbl.t = Hashtbl.create 16
let opmap : (string, (int * int) list) Hashtbl.t = Hashtbl.create 64            (* kind^id -> (left,right) ascending left *)
let opmat : (string, fc oppart) Hashtbl.t = Hashtbl.create 64                  (* kind^id^left -> part *)
let ham : fc hpart list ref = ref []
let dm : fc dmpart list ref = ref []

let reset () =
  Hashtbl.reset blocks; Hashtbl.reset vecs; Hashtbl.reset eigs; Hashtbl.reset opmap; Hashtbl.reset opmat;
  trunc := None; ham := []; dm := []

let outcome_str = function
  | Done _ -> "Done" | OOB -> "OOB" | Uninit -> "Uninit" | Throws k -> "Throws" ^ string_of_int k | OutOfFuel -> "OutOfFuel"

let build () =
  ham := List.init !nblocks (fun b ->
    t_mk_hpart (Hashtbl.find blocks b) (Hashtbl.find eigs b) (Hashtbl.find vecs b));
  (match t_ground_energy !ham with
   | Done g -> Printf.printf "MGROUND %h\n" (re g)
   | o -> Printf.printf "MGROUND %s\n" (outcome_str o));
  match t_dm_compute fexp (c !beta 0.) !ham with
  | Done d ->
    let d = (match !trunc with Some e -> t_dm_truncate (c e 0.) d | None -> d) in
    dm := d;
    List.iteri (fun b dp ->
      Printf.printf "MW %d%s\n" b (String.concat "" (List.map (fun w -> Printf.sprintf " %h" (re w)) (t_dp_weights dp)));
      Printf.printf "MZPART %d %h\n" b (re (t_dp_zpart dp));
      Printf.printf "MRET %d %d\n" b (if t_dp_retained dp then 1 else 0)) d
  | o -> Printf.printf "MODEL-ERROR dm_compute %s\n" (outcome_str o)

let pr_outcome_re = function Done x -> Printf.printf " %h" (re x) | o -> Printf.printf " %s" (outcome_str o)

let bimap_of key = try Hashtbl.find opmap key with Not_found -> raise (Failure ("no OPMAP " ^ key))
(* iteration order of bimap.right: ascending right key; entries (right key, left) *)
let by_right (bm : (int * int) list) = List.sort compare (List.map (fun (l, r) -> (r, l)) bm)
let fieldop key = List.map (fun (l, _) -> Hashtbl.find opmat (key ^ "@" ^ string_of_int l)) (bimap_of key)
let ret b = t_is_retained !dm b

let handle (t : string array) =
  let a k = t.(k) in
  match a 0 with
  | "BUILT" -> reset ()
  | "N" -> n := ios (a 1)
  | "NBLOCKS" -> nblocks := ios (a 1)
  | "BLOCK" -> Hashtbl.replace blocks (ios (a 1)) (List.init (ios (a 2)) (fun k -> ios (a (3 + k))))
  | "VEC" ->
    let b = ios (a 1) and s = ios (a 2) in
    Hashtbl.replace vecs b (List.init s (fun r -> List.init s (fun k -> c (fos (a (3 + 2 * (r * s + k)))) (fos (a (4 + 2 * (r * s + k)))))))
  | "EIG" -> Hashtbl.replace eigs (ios (a 1)) (List.init (Array.length t - 2) (fun k -> c (fos (a (2 + k))) 0.))
  | "BETA" -> beta := fos (a 1)
  | "TRUNC" -> trunc := Some (fos (a 1))
  | "ENDDUMP" -> build ()
  | "OPMAP" ->
    let key = a 1 ^ a 2 and np = ios (a 3) in
    Hashtbl.replace opmap key (List.init np (fun k -> (ios (a (4 + 2 * k)), ios (a (5 + 2 * k)))))
  | "OPMAT" ->
    let key = a 1 ^ a 2 and left = ios (a 3) and right = ios (a 4) and rows = ios (a 5) and cols = ios (a 6) and nnz = ios (a 7) in
    let m = Array.make_matrix rows cols (c 0. 0.) in
    for k = 0 to nnz - 1 do
      m.(ios (a (8 + 4 * k))).(ios (a (9 + 4 * k))) <- c (fos (a (10 + 4 * k))) (fos (a (11 + 4 * k)))
    done;
    Hashtbl.replace opmat (key ^ "@" ^ string_of_int left) (t_mk_oppart left right (Array.to_list (Array.map Array.to_list m)))
  | "dm" ->
    Printf.printf "DM %h %h" (re (t_dm_average_energy !ham !dm)) (re (t_dm_average_occupancy !n !ham !dm));
    for i = 0 to !n - 1 do pr_outcome_re (t_dm_average_occupancy_i !n i !ham !dm) done; print_newline ();
    print_string "DOCC";
    for i = 0 to !n - 1 do for j = 0 to !n - 1 do pr_outcome_re (t_dm_average_double_occupancy !n i j !ham !dm) done done;
    print_newline ();
    print_string "WSTATE";
    for s = 0 to (1 lsl !n) - 1 do pr_outcome_re (t_dm_get_weight !ham !dm s) done; print_newline ();
    print_string "ESTATE";
    for s = 0 to (1 lsl !n) - 1 do pr_outcome_re (t_ham_get_eigenvalue !ham s) done; print_newline ();
    print_string "EALL";
    List.iter (fun e -> Printf.printf " %h" (re e)) (t_ham_get_eigenvalues !ham); print_newline ()
  | "avg" ->
    let i = ios (a 1) and j = ios (a 2) in
    let key = "quad" ^ string_of_int (100 * i + j) in
    (match t_ea_prepare (fieldop key) !dm with
     | Done z -> Printf.printf "AVG %d %d %h %h\n" i j (re z) (im z)
     | o -> Printf.printf "AVG %d %d %s\n" i j (outcome_str o))
  | "gfparts" ->
    let i = a 1 and j = a 2 in
    (match t_gf_prepare ret (bimap_of ("c" ^ i)) (by_right (bimap_of ("cdag" ^ j))) with
     | Done l -> Printf.printf "MGFPARTS %s %s %d%s\n" i j (List.length l) (String.concat "" (List.map (fun (o, inn) -> Printf.sprintf " %d %d" o inn) l))
     | o -> Printf.printf "MGFPARTS %s %s %s\n" i j (outcome_str o))
  | "suscparts" ->
    let k1 = "quad" ^ string_of_int (100 * ios (a 1) + ios (a 2)) and k2 = "quad" ^ string_of_int (100 * ios (a 3) + ios (a 4)) in
    (match t_gf_prepare ret (bimap_of k1) (by_right (bimap_of k2)) with
     | Done l -> Printf.printf "MSUSCPARTS %s %s %s %s %d%s\n" (a 1) (a 2) (a 3) (a 4) (List.length l) (String.concat "" (List.map (fun (o, inn) -> Printf.sprintf " %d %d" o inn) l))
     | o -> Printf.printf "MSUSCPARTS %s %s %s %s %s\n" (a 1) (a 2) (a 3) (a 4) (outcome_str o))
  | "chiparts" ->
    let ops = [bimap_of ("c" ^ a 1); bimap_of ("c" ^ a 2); bimap_of ("cdag" ^ a 3)] in
    let l = t_tpgf_prepare ret ops (by_right (bimap_of ("cdag" ^ a 4))) in
    Printf.printf "MCHIPARTS %s %s %s %s %d\n" (a 1) (a 2) (a 3) (a 4) (List.length l)
  | _ -> ()

let () =
  try
    while true do
      let line = input_line stdin in
      let t = Array.of_list (List.filter (fun s -> s <> "") (String.split_on_char ' ' (String.trim line))) in
      if Array.length t > 0 then begin
        (try handle t with
         | Not_found -> Printf.printf "MODEL-ERROR Not_found %s\n" t.(0)
         | Invalid_argument m | Failure m -> Printf.printf "MODEL-ERROR %s %s\n" m t.(0));
        flush stdout
      end
    done
  with End_of_file -> ()
