(* Driver for the C05 model (extracted PV.Poly at K = Q). Same input and output format as harness/h_c05.cpp,
   coefficients printed as reduced fractions p/q. *)
open C05_model

let rec pos_of_int n = if n = 1 then XH else if n land 1 = 0 then XO (pos_of_int (n lsr 1)) else XI (pos_of_int (n lsr 1))
let z_of_int n = if n = 0 then Z0 else if n > 0 then Zpos (pos_of_int n) else Zneg (pos_of_int (-n))
let rec int_of_pos = function XH -> 1 | XO p -> 2 * int_of_pos p | XI p -> 2 * int_of_pos p + 1
let int_of_z = function Z0 -> 0 | Zpos p -> int_of_pos p | Zneg p -> - (int_of_pos p)
let q_of_string s =
  match String.index_opt s '/' with
  | None -> qred { qnum = z_of_int (int_of_string s); qden = XH }
  | Some i -> qred { qnum = z_of_int (int_of_string (String.sub s 0 i));
                     qden = pos_of_int (int_of_string (String.sub s (i+1) (String.length s - i - 1))) }
let string_of_q q = Printf.sprintf "%d/%d" (int_of_z q.qnum) (int_of_pos q.qden)
let ints s = List.filter_map (fun w -> if w = "" then None else Some (int_of_string w)) (String.split_on_char ',' s)

exception Err of string
type special = SN of int | SZ of int * int list | ST of int list * int list

let get = function Done x -> x | OOB -> raise (Err "OOB") | Throws c -> raise (Err (Printf.sprintf "THROWS%d" c))
                 | OutOfFuel -> raise (Err "FUEL") | Uninit -> raise (Err "UNINIT")

let eval_rpn (rpn : string) : q poly * special list =
  let st = ref [] and sp = ref [] in
  let push x = st := x :: !st in
  let pop () = match !st with x :: r -> st := r; x | [] -> raise (Err "STACK") in
  List.iter (fun t ->
    if t <> "" then begin
      let k = t.[0] and r = String.sub t 1 (String.length t - 1) in
      if t = "*" || t = "+" || t = "-" || t = "comm" || t = "acomm" then begin
        let b = pop () in let a = pop () in
        push (match t with
              | "*" -> get (q_pmul a b) | "+" -> q_padd a b | "-" -> q_psub a b
              | "comm" -> get (q_commutator a b) | _ -> get (q_anticommutator a b))
      end
      else if t = "neg" then push (q_pneg (pop ()))
      else match k with
        | 'c' -> push (q_c (int_of_string r))
        | 'd' -> push (q_cdag (int_of_string r))
        | 'n' -> push (q_n (int_of_string r))
        | 'o' -> (match ints r with [i; j] -> push (q_n_offdiag i j) | _ -> raise (Err "TOKEN"))
        | 'N' -> let m = int_of_string r in push (q_N m); sp := SN m :: !sp
        | 'S' -> let i = String.index r ':' in
          let m = int_of_string (String.sub r 0 i) and ups = ints (String.sub r (i+1) (String.length r - i - 1)) in
          push (get (q_Sz m ups)); sp := SZ (m, ups) :: !sp
        | 'T' -> let i = String.index r '|' in
          let ups = ints (String.sub r 0 i) and downs = ints (String.sub r (i+1) (String.length r - i - 1)) in
          push (get (p_Sz_lists { qnum = Zpos XH; qden = XH } qadd qmul qsub qopp qzero qhalf ups downs));
          sp := ST (ups, downs) :: !sp
        | 'k' -> push (q_padd_const (q_of_string r) [])
        | 'm' ->
          let ops = List.filter_map (fun w -> if w = "" then None else
                      Some ((w.[0] = 'c'), int_of_string (String.sub w 1 (String.length w - 1)))) (String.split_on_char '.' r) in
          push (get (q_normalize ops { qnum = Zpos XH; qden = XH } []))
        | 's' -> let a = pop () in push (q_pscale (q_of_string r) a)
        | 'a' -> let a = pop () in push (q_padd_const (q_of_string r) a)
        | 'b' -> let a = pop () in push (q_psub_const (q_of_string r) a)
        | _ -> raise (Err "TOKEN")
    end) (String.split_on_char ' ' rpn);
  match !st with [x] -> (x, List.rev !sp) | _ -> raise (Err "STACK")

let string_of_mono (m : monomial) =
  if m = [] then "1" else String.concat "." (List.map (fun (ann, i) -> Printf.sprintf "%c%d" (if ann then 'c' else 'd') i) m)
let print_poly tag (p : q poly) =
  print_string tag;
  List.iter (fun (m, c) -> Printf.printf " %s=%s" (string_of_mono m) (string_of_q c)) p;
  print_newline ()
let print_res tag f = try f () with Err e -> Printf.printf "%s ERR-%s\n" tag e

let print_mat tag (p : q poly) m =
  print_string tag;
  (try
    for k = 0 to (1 lsl m) - 1 do
      let r = get (q_act p (state_of_nat m k)) in
      let r = List.filter (fun (_, c) -> not (qzero c)) r in
      let r = List.sort compare (List.map (fun (s, c) -> (nat_of_state s, c)) r) in
      if r <> [] then begin
        Printf.printf " %d:" k;
        print_string (String.concat "," (List.map (fun (b, c) -> Printf.sprintf "%d=%s" b (string_of_q c)) r))
      end
    done
  with Err e -> Printf.printf " ERR-%s" e);
  print_newline ()

let diag (p : q poly) (s : state) : q =
  let r = get (q_act p s) in
  match List.filter (fun (s', _) -> nat_of_state s' = nat_of_state s) r with
  | (_, c) :: _ -> c | [] -> { qnum = Z0; qden = XH }

let () =
  try
    while true do
      let line = input_line stdin in
      match String.split_on_char ';' line with
      | [ms; ra; rb] ->
        let m = int_of_string (String.trim ms) in
        (try
          let (a, sp) = eval_rpn ra in
          let (b, _) = eval_rpn rb in
          print_poly "A" a; print_poly "B" b;
          print_res "MUL" (fun () -> print_poly "MUL" (get (q_pmul a b)));
          print_poly "ADD" (q_padd a b);
          print_poly "SUB" (q_psub a b);
          print_res "COMM" (fun () -> print_poly "COMM" (get (q_commutator a b)));
          print_res "ACOMM" (fun () -> print_poly "ACOMM" (get (q_anticommutator a b)));
          print_res "EQ" (fun () -> Printf.printf "EQ %d\n" (if get (q_poly_eq true a b) then 1 else 0));
          print_res "EQOLD" (fun () -> Printf.printf "EQOLD %d\n" (if get (q_poly_eq false a b) then 1 else 0));
          print_res "COMMUTES" (fun () -> Printf.printf "COMMUTES %d\n" (if get (q_commutes true a b) then 1 else 0));
          print_res "COMMUTESOLD" (fun () -> Printf.printf "COMMUTESOLD %d\n" (if get (q_commutes false a b) then 1 else 0));
          print_mat "MATA" a m; print_mat "MATB" b m;
          print_res "MATMUL" (fun () -> print_mat "MATMUL" (get (q_pmul a b)) m);
          List.iter (fun s ->
            let (kind, poly, fast) = match s with
              | SN mm -> (1, q_N mm, (fun st -> { qnum = z_of_int (n_shortcut st); qden = XH }))
              | SZ (mm, ups) -> (2, get (q_Sz mm ups),
                                 (fun st -> let (u, d) = sz_shortcut ups (sz_down mm ups) st in qred { qnum = z_of_int (u - d); qden = XO XH }))
              | ST (ups, downs) -> (3, get (p_Sz_lists { qnum = Zpos XH; qden = XH } qadd qmul qsub qopp qzero qhalf ups downs),
                                    (fun st -> let (u, d) = sz_shortcut ups downs st in qred { qnum = z_of_int (u - d); qden = XO XH })) in
            Printf.printf "SPECIAL %d" kind;
            for k = 0 to (1 lsl m) - 1 do
              let st = state_of_nat m k in
              Printf.printf " %d:%s|%s" k (string_of_q (fast st)) (string_of_q (diag poly st))
            done;
            print_newline ()) sp;
          print_endline "END"
        with Err e -> Printf.printf "ERR %s\nEND\n" e)
      | _ -> ()
    done
  with End_of_file -> ()
