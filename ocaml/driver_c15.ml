(* Driver for the C15 model. Input lines:
     P N n1 n2 n3                       -> "D a b c" | "OOB" | "UNINIT" | "THROWS" | "FUEL"
     PS k N1 ... Nk n1 n2 n3            -> same format; fills with N1, ..., Nk in turn on one
                                           container (k >= 0), then looks up with window Nk
     W N                                -> number of cells in the window
     V n1 n2 n3 beta chi_re chi_im g13_re g13_im g24.. g14.. g23..   (hex floats) -> "re im" (hex floats) *)
open C15_model

let rec pos_of_int n = if n = 1 then XH else if n land 1 = 0 then XO (pos_of_int (n lsr 1)) else XI (pos_of_int (n lsr 1))
let z_of_int n = if n = 0 then Z0 else if n > 0 then Zpos (pos_of_int n) else Zneg (pos_of_int (-n))
let rec int_of_pos = function XH -> 1 | XO p -> 2 * int_of_pos p | XI p -> 2 * int_of_pos p + 1
let int_of_z = function Z0 -> 0 | Zpos p -> int_of_pos p | Zneg p -> - (int_of_pos p)

let print_outcome = function
  | Done ((x, y), w) -> Printf.printf "D %d %d %d\n" (int_of_z x) (int_of_z y) (int_of_z w)
  | OOB -> print_endline "OOB"
  | Uninit -> print_endline "UNINIT"
  | Throws _ -> print_endline "THROWS"
  | OutOfFuel -> print_endline "FUEL"

let () =
  try
    while true do
      let line = input_line stdin in
      match String.split_on_char ' ' (String.trim line) with
      | "P" :: n :: a :: b :: c :: [] ->
        let z s = z_of_int (int_of_string s) in
        print_outcome (probe (z n) (z a) (z b) (z c))
      | "PS" :: k :: rest
        when (match int_of_string_opt k with
              | Some k -> k >= 0 && List.length rest = k + 3 | None -> false) ->
        let k = int_of_string k in
        let zs = List.map (fun s -> z_of_int (int_of_string s)) rest in
        let ns = List.filteri (fun i _ -> i < k) zs in
        (match List.filteri (fun i _ -> i >= k) zs with
         | [a; b; c] -> print_outcome (probe_seq ns a b c)
         | _ -> print_endline "PARSE-ERROR")
      | "W" :: n :: [] -> Printf.printf "%d\n" (int_of_z (window_cells (z_of_int (int_of_string n))))
      | "V" :: a :: b :: c :: rest ->
        let f = Array.of_list (List.map float_of_string rest) in
        let z s = z_of_int (int_of_string s) in
        let p i = (Float64.of_float f.(i), Float64.of_float f.(i+1)) in
        let beta = (Float64.of_float f.(0), Float64.of_float 0.0) in
        (match vertex_value_f beta (p 1) (p 3) (p 5) (p 7) (p 9) (z a) (z b) (z c) with
         | (re, im) -> Printf.printf "%h %h\n" (Float64.to_float re) (Float64.to_float im))
      | [""] -> ()
      | _ -> print_endline "PARSE-ERROR"
    done
  with End_of_file -> ()
