(* Driver for the C16 dispatcher model (extracted from coq/theories/Dispatch.v).

   Replay mode -- stdin is a sequence of cases:
     CASE <id> <np> <ib:0|1>
     N j0 j1 ...            first: the job stack (top first) of round 0 = init; later: ENewRound
     O j w j w ...          EOrder [(j,w); ...]
     C <k> w1..wk <m> v1..vm    ECheck [w1..wk] [v1..vm]
     RW w j | RF w | RP w   ERecv w (MWork j) | MFinish | MPend
     X w j                  ERun w j
     E r                    EExit r
     I r                    EIdle r
     END | PARTIAL          END: the run completed, the end-of-round predicate must hold;
                            PARTIAL: the run was cut short (hang): report what the model could do next
   Every event is fed to the extracted [step]; the first one that is not enabled ends the case:
     FAIL <id> event=<index> <text> state=<summary> could=<enabled events>
   Otherwise, per completed round  "ROUND <id> <k> LOG j:w,... MAP j:w,..."  and finally
     OK <id> rounds=<R> events=<n>     |  FINALBAD <id> round=<k> state=...  |  PARTIAL <id> events=<n> final=<b> could=...

   Exploration mode -- a line  EXPLORE <np> <ib> <J> <rounds>  enumerates every reachable state of the model
   (all interleavings) with [candidates], checking in every state: not final => some event enabled; every
   event decreases [mu]; final => final_okb; prints  EXPLORED states=<n> finals=<f> maxdepth=<d> bad=<b>. *)
open C16_model

let str_msg = function MWork j -> Printf.sprintf "Work(%d)" j | MFinish -> "Finish" | MPend -> "Pending"
let str_list f l = "[" ^ String.concat ";" (List.map f l) ^ "]"
let str_event = function
  | EOrder l -> "Order" ^ str_list (fun (j, w) -> Printf.sprintf "%d->%d" j w) l
  | ECheck (a, b) -> "Check seen=" ^ str_list string_of_int a ^ " finish=" ^ str_list string_of_int b
  | ERecv (w, m) -> Printf.sprintf "Recv(%d,%s)" w (str_msg m)
  | ERun (w, j) -> Printf.sprintf "Run(%d,%d)" w j
  | EExit r -> Printf.sprintf "Exit(%d)" r
  | EIdle r -> Printf.sprintf "Idle(%d)" r
  | ENewRound js -> "NewRound" ^ str_list string_of_int js

let str_wst = function Pending -> "P" | Work j -> Printf.sprintf "W%d" j | Finish -> "F"
let b2s b = if b then "1" else "0"

(* canonical textual form of a state (functions tabulated over the ranks / jobs of the configuration) *)
let key ?(sortlog = false) c s =
  let rk = ranks c in
  let lg = if sortlog then List.sort compare s.log else s.log in
  String.concat "|"
    [ str_list string_of_int s.jobstack; str_list string_of_int s.wstack;
      String.concat "," (List.map (fun w ->
          Printf.sprintf "%d:o%s f%s %s %s p%s x%s" w (b2s (s.outst w)) (b2s (s.wfin w)) (str_wst (s.wst w))
            (str_list str_msg (s.chan w)) (b2s (s.pend_older w)) (b2s (s.exited w))) rk);
      String.concat "," (List.map (fun j -> match s.dmap j with Some w -> Printf.sprintf "%d>%d" j w | None -> "") s.alljobs);
      str_list (fun (j, w) -> Printf.sprintf "%d@%d" j w) lg; b2s s.err; string_of_int s.round ]

let could c s = str_list str_event (candidates c s)

let round_line id c s =
  let lg = List.sort compare s.log in
  let mp = List.filter_map (fun j -> match s.dmap j with Some w -> Some (j, w) | None -> None) (List.sort compare s.alljobs) in
  let f l = String.concat "," (List.map (fun (j, w) -> Printf.sprintf "%d:%d" j w) l) in
  Printf.printf "ROUND %s %d LOG %s MAP %s\n" id s.round (f lg) (f mp)

let ints l = List.map int_of_string l

let rec take n l = if n = 0 then ([], l) else match l with x :: r -> let (a, b) = take (n - 1) r in (x :: a, b) | [] -> failwith "short"

let rec pairs = function a :: b :: r -> (a, b) :: pairs r | [] -> [] | _ -> failwith "odd"

let parse_event toks =
  match toks with
  | "O" :: r -> EOrder (pairs (ints r))
  | "C" :: k :: r ->
    let (a, r') = take (int_of_string k) r in
    (match r' with
     | m :: r'' -> let (b, _) = take (int_of_string m) r'' in ECheck (ints a, ints b)
     | [] -> failwith "C")
  | [ "RW"; w; j ] -> ERecv (int_of_string w, MWork (int_of_string j))
  | [ "RF"; w ] -> ERecv (int_of_string w, MFinish)
  | [ "RP"; w ] -> ERecv (int_of_string w, MPend)
  | [ "X"; w; j ] -> ERun (int_of_string w, int_of_string j)
  | [ "E"; r ] -> EExit (int_of_string r)
  | [ "I"; r ] -> EIdle (int_of_string r)
  | _ -> failwith "event"

(* ---- replay ---- *)
type st = { id : string; c : cfg; mutable s : sys option; mutable n : int; mutable dead : bool }

let replay_line cur toks =
  if cur.dead then ()
  else
    match toks with
    | "N" :: r ->
      let js = ints r in
      (match cur.s with
       | None ->
         if not (valid_cfg cur.c) then begin Printf.printf "INVALID %s no-workers\n" cur.id; cur.dead <- true end
         else cur.s <- Some (init cur.c js)
       | Some s ->
         if finalb cur.c s && not (final_okb cur.c s) then begin
           Printf.printf "FINALBAD %s round=%d state=%s\n" cur.id s.round (key cur.c s); cur.dead <- true end
         else begin
           (match step cur.c s (ENewRound js) with
            | Some s' -> round_line cur.id cur.c s; cur.s <- Some s'; cur.n <- cur.n + 1
            | None ->
              Printf.printf "FAIL %s event=%d %s state=%s could=%s\n" cur.id cur.n (str_event (ENewRound js)) (key cur.c s) (could cur.c s);
              cur.dead <- true)
         end)
    | [ "END" ] ->
      (match cur.s with
       | None -> Printf.printf "FAIL %s event=0 no-init\n" cur.id
       | Some s ->
         if finalb cur.c s && final_okb cur.c s then begin
           round_line cur.id cur.c s; Printf.printf "OK %s rounds=%d events=%d\n" cur.id (s.round + 1) cur.n end
         else if finalb cur.c s then Printf.printf "FINALBAD %s round=%d state=%s\n" cur.id s.round (key cur.c s)
         else Printf.printf "FAIL %s event=%d end-of-trace-not-final state=%s could=%s\n" cur.id cur.n (key cur.c s) (could cur.c s));
      cur.dead <- true
    | [ "PARTIAL" ] ->
      (match cur.s with
       | None -> Printf.printf "PARTIAL %s events=0 final=0 could=[]\n" cur.id
       | Some s -> Printf.printf "PARTIAL %s events=%d final=%s state=%s could=%s\n" cur.id cur.n (b2s (finalb cur.c s)) (key cur.c s) (could cur.c s));
      cur.dead <- true
    | _ ->
      (match cur.s with
       | None -> Printf.printf "FAIL %s event=0 no-init\n" cur.id; cur.dead <- true
       | Some s ->
         let e = parse_event toks in
         (match step cur.c s e with
          | Some s' -> cur.s <- Some s'; cur.n <- cur.n + 1
          | None ->
            Printf.printf "FAIL %s event=%d %s state=%s could=%s\n" cur.id cur.n (str_event e) (key cur.c s) (could cur.c s);
            cur.dead <- true))

(* ---- exhaustive exploration of a small configuration ---- *)
let explore np ib nj rounds =
  let c = { np; ib } in
  if not (valid_cfg c) then print_endline "EXPLORED invalid-configuration"
  else begin
    let js = List.init nj (fun i -> i) in
    let seen = Hashtbl.create 100003 in
    let bad = ref 0 and finals = ref 0 and maxd = ref 0 and firstbad = ref "" in
    let flag what s = incr bad; if !firstbad = "" then firstbad := what ^ " " ^ key c s in
    let stack = Stack.create () in
    let push d s =
      let k = key ~sortlog:true c s in
      if not (Hashtbl.mem seen k) then begin Hashtbl.add seen k (); Stack.push (d, s) stack end in
    push 0 (init c js);
    while not (Stack.is_empty stack) do
      let (d, s) = Stack.pop stack in
      if d > !maxd then maxd := d;
      if s.err then flag "err" s;
      if finalb c s then begin
        incr finals;
        if not (final_okb c s) then flag "final-not-ok" s;
        if s.round + 1 < rounds then
          (match step c s (ENewRound js) with Some s' -> push (d + 1) s' | None -> flag "newround-refused" s)
      end else begin
        let cs = candidates c s in
        if cs = [] then flag "deadlock" s;
        List.iter (fun e ->
            match step c s e with
            | Some s' -> if not (mu c s' < mu c s) then flag ("measure " ^ str_event e) s; push (d + 1) s'
            | None -> flag ("candidate-not-enabled " ^ str_event e) s) cs
      end
    done;
    Printf.printf "EXPLORED np=%d ib=%s J=%d rounds=%d states=%d finals=%d maxdepth=%d bad=%d %s\n"
      np (b2s ib) nj rounds (Hashtbl.length seen) !finals !maxd !bad !firstbad
  end

let () =
  let cur = ref None in
  try
    while true do
      let line = String.trim (input_line stdin) in
      let toks = List.filter (fun x -> x <> "") (String.split_on_char ' ' line) in
      (try
         match toks with
         | [] -> ()
         | [ "CASE"; id; np; ib ] ->
           cur := Some { id; c = { np = int_of_string np; ib = (ib = "1") }; s = None; n = 0; dead = false }
         | [ "EXPLORE"; np; ib; nj; r ] -> explore (int_of_string np) (ib = "1") (int_of_string nj) (int_of_string r)
         | _ -> (match !cur with Some c -> replay_line c toks | None -> print_endline "PARSE-ERROR no case")
       with Failure m ->
         (match !cur with
          | Some c -> Printf.printf "FAIL %s event=%d parse-error(%s) line=%s\n" c.id c.n m line; c.dead <- true
          | None -> print_endline ("PARSE-ERROR " ^ line)));
      flush stdout
    done
  with End_of_file -> ()
