"""A deliberately small C++ expression parser used by the translator (DESIGN.md 2.6).

Subset: identifiers (with :: and . and -> member access folded into the name), integer and
floating literals, + - * /, unary - and !, comparisons, && ||, ?:, parentheses, calls f(a,b),
subscripts a[i].  Anything else raises Untranslatable.
AST: ('num', text) | ('var', name) | ('un', op, a) | ('bin', op, a, b) | ('tern', c, a, b)
     | ('call', name, [args]) | ('idx', a, i)
"""
import re


class Untranslatable(Exception):
    pass


TOKEN = re.compile(r"""\s*(?:
    (?P<num>\d+\.\d*(?:[eE][-+]?\d+)?|\.\d+(?:[eE][-+]?\d+)?|\d+[eE][-+]?\d+|\d+)[lLuUfF]*
  | (?P<id>[A-Za-z_]\w*(?:\s*(?:::|\.|->)\s*[A-Za-z_]\w*)*)
  | (?P<op>\|\||&&|<=|>=|==|!=|[-+*/<>!?:(),\[\]])
)""", re.X)


def tokenize(s):
    s = re.sub(r'//[^\n]*', '', s)
    s = re.sub(r'/\*.*?\*/', '', s, flags=re.S)
    out, pos = [], 0
    s = s.strip()
    while pos < len(s):
        m = TOKEN.match(s, pos)
        if not m or m.end() == pos:
            raise Untranslatable("cannot tokenize at: " + s[pos:pos + 30])
        pos = m.end()
        if m.group('num') is not None:
            out.append(('num', m.group('num')))
        elif m.group('id') is not None:
            out.append(('id', re.sub(r'\s+', '', m.group('id')).replace('->', '.')))
        else:
            out.append(('op', m.group('op')))
    return out


class P:
    def __init__(self, toks):
        self.t, self.i = toks, 0

    def peek(self):
        return self.t[self.i] if self.i < len(self.t) else ('eof', '')

    def eat(self, kind=None, val=None):
        k, v = self.peek()
        if (kind and k != kind) or (val is not None and v != val):
            raise Untranslatable("expected %s %s, got %s %s" % (kind, val, k, v))
        self.i += 1
        return v

    def isop(self, *vals):
        k, v = self.peek()
        return k == 'op' and v in vals

    def expr(self):
        c = self.lor()
        if self.isop('?'):
            self.eat()
            a = self.expr()
            self.eat('op', ':')
            b = self.expr()
            return ('tern', c, a, b)
        return c

    def lor(self):
        a = self.land()
        while self.isop('||'):
            self.eat()
            a = ('bin', '||', a, self.land())
        return a

    def land(self):
        a = self.cmp()
        while self.isop('&&'):
            self.eat()
            a = ('bin', '&&', a, self.cmp())
        return a

    def cmp(self):
        a = self.add()
        if self.isop('<', '<=', '>', '>=', '==', '!='):
            op = self.eat()
            a = ('bin', op, a, self.add())
        return a

    def add(self):
        a = self.mul()
        while self.isop('+', '-'):
            op = self.eat()
            a = ('bin', op, a, self.mul())
        return a

    def mul(self):
        a = self.unary()
        while self.isop('*', '/'):
            op = self.eat()
            a = ('bin', op, a, self.unary())
        return a

    def unary(self):
        if self.isop('-'):
            self.eat()
            return ('un', '-', self.unary())
        if self.isop('+'):
            self.eat()
            return self.unary()
        if self.isop('!'):
            self.eat()
            return ('un', '!', self.unary())
        return self.postfix()

    def postfix(self):
        a = self.primary()
        while True:
            if self.isop('('):
                if a[0] != 'var':
                    raise Untranslatable("call of non-identifier")
                self.eat()
                args = []
                if not self.isop(')'):
                    args.append(self.expr())
                    while self.isop(','):
                        self.eat()
                        args.append(self.expr())
                self.eat('op', ')')
                a = ('call', a[1], args)
            elif self.isop('['):
                self.eat()
                i = self.expr()
                self.eat('op', ']')
                a = ('idx', a, i)
            else:
                return a

    def primary(self):
        k, v = self.peek()
        if k == 'num':
            self.eat()
            return ('num', v)
        if k == 'id':
            self.eat()
            return ('var', v)
        if self.isop('('):
            self.eat()
            e = self.expr()
            self.eat('op', ')')
            return e
        raise Untranslatable("unexpected token %s %s" % (k, v))


def parse(s):
    p = P(tokenize(s))
    e = p.expr()
    if p.peek()[0] != 'eof':
        raise Untranslatable("trailing tokens: %r" % (p.t[p.i:],))
    return e


# ---------------------------------------------------------------------------
# Emitters

def to_Z(e, env, calls=None, reads=None):
    """Integer-valued C expression -> Gallina term of type Z (booleans: type bool).
    env: C identifier -> Gallina text. calls: C function name -> Gallina function text.
    reads: optional list collecting (array, index term) for every subscript translated."""
    calls = calls or {}
    _rec = lambda x, env, calls: to_Z_(x, env, calls, reads)
    return to_Z_(e, env, calls, reads)


def to_Z_(e, env, calls, reads):
    def to_Z(x, env, calls):
        return to_Z_(x, env, calls, reads)
    k = e[0]
    if k == 'num':
        if not re.fullmatch(r'\d+', e[1]):
            raise Untranslatable("non-integer literal in integer expression: " + e[1])
        return e[1]
    if k == 'var':
        if e[1] not in env:
            raise Untranslatable("unknown identifier " + e[1])
        return env[e[1]]
    if k == 'un':
        if e[1] == '-':
            return "(- %s)" % to_Z(e[2], env, calls)
        return "(negb %s)" % to_Z(e[2], env, calls)
    if k == 'bin':
        a, b = to_Z(e[2], env, calls), to_Z(e[3], env, calls)
        op = e[1]
        m = {'+': '(%s + %s)', '-': '(%s - %s)', '*': '(%s * %s)', '/': '(Z.quot %s %s)',
             '<': '(%s <? %s)', '<=': '(%s <=? %s)', '>': '(%s >? %s)', '>=': '(%s >=? %s)',
             '==': '(%s =? %s)', '!=': '(negb (%s =? %s))', '&&': '(%s && %s)', '||': '(%s || %s)'}
        return m[op] % (a, b)
    if k == 'tern':
        return "(if %s then %s else %s)" % (to_Z(e[1], env, calls), to_Z(e[2], env, calls), to_Z(e[3], env, calls))
    if k == 'call':
        if e[1] not in calls:
            raise Untranslatable("unknown call " + e[1])
        return "(%s %s)" % (calls[e[1]], " ".join(to_Z(a, env, calls) for a in e[2]))
    if k == 'idx':
        if e[1][0] == 'var' and (e[1][1] + "[]") in env:
            ix = to_Z(e[2], env, calls)
            if reads is not None:
                reads.append((e[1][1], ix))
            return "(%s %s)" % (env[e[1][1] + "[]"], ix)
        raise Untranslatable("subscript of unknown array")
    raise Untranslatable("node " + k)


def to_K(e, env, calls=None, lit=None):
    """Field-valued C expression -> Gallina term over a generic field with operations
    kadd ksub kmul kdiv kopp and literal injection; comparisons not supported here."""
    calls = calls or {}
    k = e[0]
    if k == 'num':
        if lit is None:
            raise Untranslatable("literal in field expression: " + e[1])
        return lit(e[1])
    if k == 'var':
        if e[1] not in env:
            raise Untranslatable("unknown identifier " + e[1])
        return env[e[1]]
    if k == 'un' and e[1] == '-':
        return "(kopp %s)" % to_K(e[2], env, calls, lit)
    if k == 'bin' and e[1] in '+-*/':
        f = {'+': 'kadd', '-': 'ksub', '*': 'kmul', '/': 'kdiv'}[e[1]]
        return "(%s %s %s)" % (f, to_K(e[2], env, calls, lit), to_K(e[3], env, calls, lit))
    if k == 'call':
        if e[1] not in calls:
            raise Untranslatable("unknown call " + e[1])
        return "(%s %s)" % (calls[e[1]], " ".join(to_K(a, env, calls, lit) for a in e[2]))
    raise Untranslatable("node %s in field expression" % (k,))


# ---------------------------------------------------------------------------
# Locating fragments in C++ source text

def strip_comments(s):
    s = re.sub(r'/\*.*?\*/', lambda m: re.sub(r'[^\n]', ' ', m.group(0)), s, flags=re.S)
    s = re.sub(r'//[^\n]*', '', s)
    return s


def find_body(src, header_regex, start=0):
    """Return the brace-enclosed body following the first match of header_regex."""
    m = re.compile(header_regex, re.S).search(src, start)
    if not m:
        raise Untranslatable("function header not found: " + header_regex)
    i = src.find('{', m.end() - 1)
    if i < 0:
        raise Untranslatable("no body after " + header_regex)
    depth, j = 0, i
    while j < len(src):
        if src[j] == '{':
            depth += 1
        elif src[j] == '}':
            depth -= 1
            if depth == 0:
                return src[i + 1:j]
        j += 1
    raise Untranslatable("unbalanced braces after " + header_regex)


def find_stmt(body, lhs_regex):
    """Right-hand side of the first statement `<lhs> = <rhs>;` whose lhs matches."""
    m = re.compile(r'(?:%s)\s*=(?!=)\s*(.*?);' % lhs_regex, re.S).search(body)
    if not m:
        raise Untranslatable("statement not found: " + lhs_regex)
    return m.group(m.lastindex)
