"""Helpers shared by translator/gen_index.py and translator/gen_lattice.py (not a fragment module: no FRAGMENTS).

  statements(text)      a block of C++ -> list of statements
                          ('for', header, [stmts]) | ('while', cond, [stmts]) | ('if', cond, [stmts], [else stmts] or None)
                        | ('block', [stmts]) | ('simple', text-without-semicolon)
  parse(text)           C++ expression -> AST of cexpr.py, extended by  % << >> & ^ |  with the C precedences
                          ('num', text) | ('var', name) | ('un', op, a) | ('bin', op, a, b) | ('tern', c, a, b)
                        | ('call', name, [args]) | ('idx', a, i) | ('str', text)
  for_header(head)      `T v = FIRST; v < BOUND; ++v`  ->  (v, FIRST text, '<' | '<=', BOUND text)
  nat_expr / bool_expr  emitters over nat (truncated subtraction is refused: unsigned wrap-around is not nat's)

Everything that is not recognised raises cexpr.Untranslatable.
"""
import os
import re
import sys

sys.path.insert(0, os.path.dirname(os.path.abspath(__file__)))
from cexpr import Untranslatable, strip_comments, find_body


def read(repo, rel):
    """source text without comments and without the print-only macros DEBUG(...) / INFO(...) / ERROR(...)"""
    with open(os.path.join(repo, rel)) as f:
        src = strip_comments(f.read())
    return re.sub(r'\b(?:DEBUG|INFO|ERROR)\s*\((?:[^()"]|"(?:[^"\\]|\\.)*"|\((?:[^()"]|"(?:[^"\\]|\\.)*"|\((?:[^()"]|"(?:[^"\\]|\\.)*"|\([^()]*\))*\))*\))*\)\s*;?',
                  '', src)


def squeeze(s):
    return re.sub(r'\s+', '', s)


# ---------------------------------------------------------------------------------------------------------------
# statements

def _match(text, i, open_ch, close_ch):
    if i >= len(text) or text[i] != open_ch:
        raise Untranslatable("expected `%s`" % open_ch)
    depth = 0
    for j in range(i, len(text)):
        if text[j] == open_ch:
            depth += 1
        elif text[j] == close_ch:
            depth -= 1
            if depth == 0:
                return j
    raise Untranslatable("unbalanced `%s`" % open_ch)


def _skip(text, i):
    while i < len(text) and text[i].isspace():
        i += 1
    return i


def statements(text):
    out = []
    i = 0
    while True:
        i = _skip(text, i)
        if i >= len(text):
            return out
        st, i = _statement(text, i)
        if st is not None:
            out.append(st)


def _sub(text, i):
    st, j = _statement(text, i)
    if st is None:
        return [], j
    if st[0] == 'block':
        return st[1], j
    return [st], j


def _statement(text, i):
    i = _skip(text, i)
    if i >= len(text):
        raise Untranslatable("statement expected at the end of the text")
    if text[i] == ';':
        return None, i + 1
    if text[i] == '#':
        raise Untranslatable("preprocessor directive inside a function body")
    if text[i] == '{':
        j = _match(text, i, '{', '}')
        return ('block', statements(text[i + 1:j])), j + 1
    m = re.compile(r'(for|while|if|switch|do|try|goto)\b\s*').match(text, i)
    if m and m.group(1) in ('switch', 'do', 'try', 'goto'):
        raise Untranslatable("`%s` statement" % m.group(1))
    if m:
        k = m.end()
        j = _match(text, k, '(', ')')
        head = text[k + 1:j]
        body, e = _sub(text, j + 1)
        if m.group(1) == 'if':
            e2 = _skip(text, e)
            me = re.compile(r'else\b').match(text, e2)
            if me:
                els, e = _sub(text, me.end())
                return ('if', head, body, els), e
            return ('if', head, body, None), e
        return (m.group(1), head, body), e
    depth = 0
    for j in range(i, len(text)):
        c = text[j]
        if c in '([':
            depth += 1
        elif c in ')]':
            depth -= 1
        elif c in '{}':
            raise Untranslatable("brace inside a simple statement: " + text[i:j + 1].strip()[:60])
        elif c == ';' and depth == 0:
            return ('simple', re.sub(r'\s+', ' ', text[i:j].strip())), j + 1
    raise Untranslatable("statement without `;`: " + text[i:i + 60].strip())


def show(st):
    return st[1][:70] if st[0] == 'simple' else "%s (%s)" % (st[0], re.sub(r'\s+', ' ', str(st[1]))[:50])


def split_args(text):
    """arguments of a call, split at the commas outside parentheses / brackets / braces / template brackets are NOT tracked"""
    out, depth, cur = [], 0, ""
    for ch in text:
        if ch in '([{':
            depth += 1
        elif ch in ')]}':
            depth -= 1
        if ch == ',' and depth == 0:
            out.append(cur.strip())
            cur = ""
        else:
            cur += ch
    if cur.strip():
        out.append(cur.strip())
    return out


INT_TYPE = r'(?:const\s+)?(?:unsigned\s+short|unsigned\s+int|unsigned\s+long|unsigned|short|int|long|size_t|std::size_t|ParticleIndex)'


def for_header(head):
    """`T v = FIRST; v < BOUND; ++v` (also v++, v += 1) -> (v, first text, cmp, bound text)"""
    parts = [p.strip() for p in head.split(';')]
    if len(parts) != 3:
        raise Untranslatable("for header not recognised: " + re.sub(r'\s+', ' ', head.strip())[:80])
    m = re.fullmatch(INT_TYPE + r'\s+(\w+)\s*=\s*(.+)', parts[0], re.S)
    if not m:
        raise Untranslatable("for header: initialisation not recognised: " + parts[0][:60])
    v, first = m.group(1), m.group(2).strip()
    mc = re.fullmatch(r'%s\s*(<=|<)\s*(.+)' % v, parts[1], re.S)
    if not mc:
        raise Untranslatable("for header: condition is not `%s < bound`: %s" % (v, parts[1][:60]))
    if not re.fullmatch(r'\+\+\s*%s|%s\s*\+\+|%s\s*\+=\s*1' % (v, v, v), parts[2]):
        raise Untranslatable("for header: step is not ++%s: %s" % (v, parts[2][:40]))
    return v, first, mc.group(1), mc.group(2).strip()


# ---------------------------------------------------------------------------------------------------------------
# expressions (cexpr.py's AST, more operators)

TOKEN = re.compile(r"""\s*(?:
    (?P<num>\d+\.\d*(?:[eE][-+]?\d+)?|\.\d+(?:[eE][-+]?\d+)?|\d+[eE][-+]?\d+|\d+)(?P<suffix>[lLuUfF]*)
  | (?P<str>"(?:[^"\\]|\\.)*")
  | (?P<id>[A-Za-z_]\w*(?:\s*(?:::|\.|->)\s*[A-Za-z_]\w*)*)
  | (?P<op>\|\||&&|<<|>>|<=|>=|==|!=|[-+*/%<>!?:(),\[\]&|^~])
)""", re.X)


def tokenize(s):
    out, pos = [], 0
    s = s.strip()
    while pos < len(s):
        m = TOKEN.match(s, pos)
        if not m or m.end() == pos:
            raise Untranslatable("cannot tokenize at: " + s[pos:pos + 30])
        pos = m.end()
        if m.group('num') is not None:
            out.append(('num', m.group('num')))
        elif m.group('str') is not None:
            out.append(('str', m.group('str')))
        elif m.group('id') is not None:
            out.append(('id', re.sub(r'\s+', '', m.group('id')).replace('->', '.')))
        else:
            out.append(('op', m.group('op')))
    return out


class P:
    LEVELS = [('||',), ('&&',), ('|',), ('^',), ('&',), ('==', '!='), ('<', '<=', '>', '>='), ('<<', '>>'), ('+', '-'), ('*', '/', '%')]

    def __init__(self, toks):
        self.t, self.i = toks, 0

    def peek(self):
        return self.t[self.i] if self.i < len(self.t) else ('eof', '')

    def eat(self, kind=None, val=None):
        k, v = self.peek()
        if (kind and k != kind) or (val is not None and v != val):
            raise Untranslatable("expected %s %s, got %s %s" % (kind, val, k, v))
        self.i += 1
        return v

    def isop(self, *vals):
        k, v = self.peek()
        return k == 'op' and v in vals

    def expr(self):
        c = self.level(0)
        if self.isop('?'):
            self.eat()
            a = self.expr()
            self.eat('op', ':')
            b = self.expr()
            return ('tern', c, a, b)
        return c

    def level(self, n):
        if n == len(self.LEVELS):
            return self.unary()
        a = self.level(n + 1)
        while self.isop(*self.LEVELS[n]):
            op = self.eat()
            a = ('bin', op, a, self.level(n + 1))
        return a

    def unary(self):
        if self.isop('-', '!', '~', '*', '&'):
            op = self.eat()
            return ('un', op, self.unary())
        if self.isop('+'):
            self.eat()
            return self.unary()
        return self.postfix()

    def postfix(self):
        a = self.primary()
        while True:
            if self.isop('('):
                if a[0] != 'var':
                    raise Untranslatable("call of non-identifier")
                self.eat()
                args = []
                if not self.isop(')'):
                    args.append(self.expr())
                    while self.isop(','):
                        self.eat()
                        args.append(self.expr())
                self.eat('op', ')')
                a = ('call', a[1], args)
            elif self.isop('['):
                self.eat()
                i = self.expr()
                self.eat('op', ']')
                a = ('idx', a, i)
            else:
                return a

    def primary(self):
        k, v = self.peek()
        if k == 'num':
            self.eat()
            return ('num', v)
        if k == 'str':
            self.eat()
            return ('str', v)
        if k == 'id':
            self.eat()
            return ('var', v)
        if self.isop('('):
            self.eat()
            e = self.expr()
            self.eat('op', ')')
            return e
        raise Untranslatable("unexpected token %s %s" % (k, v))


def normalise(text):
    """(*(X)).m / (*X).m -> X->m for X a chain of identifiers;  X->m stays"""
    chain = r'[A-Za-z_]\w*(?:\s*(?:->|\.)\s*[A-Za-z_]\w*)*'
    prev = None
    while prev != text:
        prev = text
        text = re.sub(r'\(\s*\*\s*\(\s*(%s)\s*\)\s*\)\s*\.' % chain, r'\1->', text)
        text = re.sub(r'\(\s*\*\s*(%s)\s*\)\s*\.' % chain, r'\1->', text)
    return text


def parse(s):
    p = P(tokenize(normalise(s)))
    e = p.expr()
    if p.peek()[0] != 'eof':
        raise Untranslatable("trailing tokens: %r" % (p.t[p.i:p.i + 4],))
    return e


def nat_expr(e, env, calls=None):
    """integer-valued expression over non-negative values -> Gallina nat.  env: identifier -> text;
    calls: name -> function(list of arg ASTs, rec) -> text"""
    calls = calls or {}

    def rec(x):
        k = x[0]
        if k == 'num':
            if not re.fullmatch(r'\d+', x[1]):
                raise Untranslatable("non-integer literal in an integer expression: " + x[1])
            return x[1]
        if k == 'var':
            if x[1] not in env:
                raise Untranslatable("unknown identifier " + x[1])
            return env[x[1]]
        if k == 'bin' and x[1] in ('+', '*', '/', '%', '<<', '>>', '|', '&', '^'):
            f = {'+': 'Nat.add', '*': 'Nat.mul', '/': 'Nat.div', '%': 'Nat.modulo', '<<': 'Nat.shiftl', '>>': 'Nat.shiftr',
                 '|': 'Nat.lor', '&': 'Nat.land', '^': 'Nat.lxor'}[x[1]]
            if x[1] == '+':
                return "(%s + %s)" % (rec(x[2]), rec(x[3]))
            if x[1] == '*':
                return "(%s * %s)" % (rec(x[2]), rec(x[3]))
            return "(%s %s %s)" % (f, rec(x[2]), rec(x[3]))
        if k == 'tern':
            return "(if %s then %s else %s)" % (bool_expr(x[1], env, calls, rec), rec(x[2]), rec(x[3]))
        if k == 'call' and x[1] in calls:
            return calls[x[1]](x[2], rec)
        if k == 'bin' and x[1] == '-':
            raise Untranslatable("subtraction in an unsigned expression (wrap-around is not modelled)")
        raise Untranslatable("integer expression not recognised: %s" % (x,))
    return rec(e)


def bool_expr(e, env, calls=None, nat=None, atoms=None):
    """boolean expression -> Gallina bool; comparisons are between nat expressions.
    atoms: function(AST) -> text or None, tried first (label comparisons, zero tests of amplitudes, ...)"""
    calls = calls or {}
    nat = nat or (lambda x: nat_expr(x, env, calls))

    def rec(x):
        if atoms is not None:
            t = atoms(x)
            if t is not None:
                return t
        k = x[0]
        if k == 'bin' and x[1] in ('&&', '||'):
            return "(%s %s %s)" % (rec(x[2]), x[1], rec(x[3]))
        if k == 'un' and x[1] == '!':
            return "(negb %s)" % rec(x[2])
        if k == 'bin' and x[1] in ('==', '!=', '<', '<=', '>', '>='):
            a, b = nat(x[2]), nat(x[3])
            return {'==': "(%s =? %s)" % (a, b), '!=': "(negb (%s =? %s))" % (a, b),
                    '<': "(%s <? %s)" % (a, b), '<=': "(%s <=? %s)" % (a, b),
                    '>': "(%s <? %s)" % (b, a), '>=': "(%s <=? %s)" % (b, a)}[x[1]]
        if k == 'var' and x[1] in ('true', 'false'):
            return x[1]
        raise Untranslatable("boolean expression not recognised: %s" % (x,))
    return rec(e)
