"""Helpers shared by translator/gen_index.py and translator/gen_lattice.py (not a fragment module: no FRAGMENTS).

  statements(text)      a block of C++ -> list of statements
                          ('for', header, [stmts]) | ('while', cond, [stmts]) | ('if', cond, [stmts], [else stmts] or None)
                        | ('block', [stmts]) | ('simple', text-without-semicolon)
  parse(text)           C++ expression -> AST of cexpr.py, extended by  % << >> & ^ |  with the C precedences
                          ('num', text) | ('var', name) | ('un', op, a) | ('bin', op, a, b) | ('tern', c, a, b)
                        | ('call', name, [args]) | ('idx', a, i) | ('str', text)
  for_header(head)      `T v = FIRST; v < BOUND; ++v`  ->  (v, FIRST text, '<' | '<=', BOUND text)
  nat_expr / bool_expr  emitters over nat (truncated subtraction is refused: unsigned wrap-around is not nat's)

Everything that is not recognised raises cexpr.Untranslatable.
"""
import os
import re
import sys

sys.path.insert(0, os.path.dirname(os.path.abspath(__file__)))
from cexpr import Untranslatable, strip_comments, find_body


def read(repo, rel):
    """source text without comments and without the print-only macros DEBUG(...) / INFO(...) / ERROR(...)"""
    with open(os.path.join(repo, rel)) as f:
        src = strip_comments(f.read())
    return re.sub(r'\b(?:DEBUG|INFO|ERROR)\s*\((?:[^()"]|"(?:[^"\\]|\\.)*"|\((?:[^()"]|"(?:[^"\\]|\\.)*"|\((?:[^()"]|"(?:[^"\\]|\\.)*"|\([^()]*\))*\))*\))*\)\s*;?',
                  '', src)


def squeeze(s):
    return re.sub(r'\s+', '', s)


# ---------------------------------------------------------------------------------------------------------------
# statements

def _match(text, i, open_ch, close_ch):
    if i >= len(text) or text[i] != open_ch:
        raise Untranslatable("expected `%s`" % open_ch)
    depth = 0
    for j in range(i, len(text)):
        if text[j] == open_ch:
            depth += 1
        elif text[j] == close_ch:
            depth -= 1
            if depth == 0:
                return j
    raise Untranslatable("unbalanced `%s`" % open_ch)


def _skip(text, i):
    while i < len(text) and text[i].isspace():
        i += 1
    return i


def statements(text):
    """statements of a block, equivalent forms normalised (norm_stmts below)"""
    return norm_stmts(statements_raw(text))


def statements_raw(text):
    out = []
    i = 0
    while True:
        i = _skip(text, i)
        if i >= len(text):
            return out
        st, i = _statement(text, i)
        if st is not None:
            out.append(st)


def _sub(text, i):
    st, j = _statement(text, i)
    if st is None:
        return [], j
    if st[0] == 'block':
        return st[1], j
    return [st], j


def _statement(text, i):
    i = _skip(text, i)
    if i >= len(text):
        raise Untranslatable("statement expected at the end of the text")
    if text[i] == ';':
        return None, i + 1
    if text[i] == '#':
        raise Untranslatable("preprocessor directive inside a function body")
    if text[i] == '{':
        j = _match(text, i, '{', '}')
        return ('block', statements(text[i + 1:j])), j + 1
    m = re.compile(r'(for|while|if|switch|do|try|goto)\b\s*').match(text, i)
    if m and m.group(1) in ('switch', 'do', 'try', 'goto'):
        raise Untranslatable("`%s` statement" % m.group(1))
    if m:
        k = m.end()
        j = _match(text, k, '(', ')')
        head = text[k + 1:j]
        body, e = _sub(text, j + 1)
        if m.group(1) == 'if':
            e2 = _skip(text, e)
            me = re.compile(r'else\b').match(text, e2)
            if me:
                els, e = _sub(text, me.end())
                return ('if', head, body, els), e
            return ('if', head, body, None), e
        return (m.group(1), head, body), e
    depth = 0
    for j in range(i, len(text)):
        c = text[j]
        if c in '([':
            depth += 1
        elif c in ')]':
            depth -= 1
        elif c in '{}':
            raise Untranslatable("brace inside a simple statement: " + text[i:j + 1].strip()[:60])
        elif c == ';' and depth == 0:
            return ('simple', re.sub(r'\s+', ' ', text[i:j].strip())), j + 1
    raise Untranslatable("statement without `;`: " + text[i:i + 60].strip())


def show(st):
    return st[1][:70] if st[0] == 'simple' else "%s (%s)" % (st[0], re.sub(r'\s+', ' ', str(st[1]))[:50])


def split_args(text):
    """arguments of a call, split at the commas outside parentheses / brackets / braces / template brackets are NOT tracked"""
    out, depth, cur = [], 0, ""
    for ch in text:
        if ch in '([{':
            depth += 1
        elif ch in ')]}':
            depth -= 1
        if ch == ',' and depth == 0:
            out.append(cur.strip())
            cur = ""
        else:
            cur += ch
    if cur.strip():
        out.append(cur.strip())
    return out


INT_TYPE = r'(?:const\s+)?(?:unsigned\s+short|unsigned\s+int|unsigned\s+long|unsigned|short|int|long|size_t|std::size_t|ParticleIndex)'


def for_header(head):
    """`T v = FIRST; v < BOUND; ++v` (also v++, v += 1) -> (v, first text, cmp, bound text)"""
    parts = [p.strip() for p in head.split(';')]
    if len(parts) != 3:
        raise Untranslatable("for header not recognised: " + re.sub(r'\s+', ' ', head.strip())[:80])
    m = re.fullmatch(INT_TYPE + r'\s+(\w+)\s*=\s*(.+)', parts[0], re.S)
    if not m:
        raise Untranslatable("for header: initialisation not recognised: " + parts[0][:60])
    v, first = m.group(1), m.group(2).strip()
    mc = re.fullmatch(r'%s\s*(<=|<)\s*(.+)' % v, parts[1], re.S)
    if not mc:
        raise Untranslatable("for header: condition is not `%s < bound`: %s" % (v, parts[1][:60]))
    if not re.fullmatch(r'\+\+\s*%s|%s\s*\+\+|%s\s*\+=\s*1' % (v, v, v), parts[2]):
        raise Untranslatable("for header: step is not ++%s: %s" % (v, parts[2][:40]))
    return v, first, mc.group(1), mc.group(2).strip()


# ---------------------------------------------------------------------------------------------------------------
# expressions (cexpr.py's AST, more operators)

TOKEN = re.compile(r"""\s*(?:
    (?P<num>\d+\.\d*(?:[eE][-+]?\d+)?|\.\d+(?:[eE][-+]?\d+)?|\d+[eE][-+]?\d+|\d+)(?P<suffix>[lLuUfF]*)
  | (?P<str>"(?:[^"\\]|\\.)*")
  | (?P<id>[A-Za-z_]\w*(?:\s*(?:::|\.|->)\s*[A-Za-z_]\w*)*)
  | (?P<op>\|\||&&|<<|>>|<=|>=|==|!=|[-+*/%<>!?:(),\[\]&|^~])
)""", re.X)


def tokenize(s):
    out, pos = [], 0
    s = s.strip()
    while pos < len(s):
        m = TOKEN.match(s, pos)
        if not m or m.end() == pos:
            raise Untranslatable("cannot tokenize at: " + s[pos:pos + 30])
        pos = m.end()
        if m.group('num') is not None:
            out.append(('num', m.group('num')))
        elif m.group('str') is not None:
            out.append(('str', m.group('str')))
        elif m.group('id') is not None:
            out.append(('id', re.sub(r'\s+', '', m.group('id')).replace('->', '.')))
        else:
            out.append(('op', m.group('op')))
    return out


class P:
    LEVELS = [('||',), ('&&',), ('|',), ('^',), ('&',), ('==', '!='), ('<', '<=', '>', '>='), ('<<', '>>'), ('+', '-'), ('*', '/', '%')]

    def __init__(self, toks):
        self.t, self.i = toks, 0

    def peek(self):
        return self.t[self.i] if self.i < len(self.t) else ('eof', '')

    def eat(self, kind=None, val=None):
        k, v = self.peek()
        if (kind and k != kind) or (val is not None and v != val):
            raise Untranslatable("expected %s %s, got %s %s" % (kind, val, k, v))
        self.i += 1
        return v

    def isop(self, *vals):
        k, v = self.peek()
        return k == 'op' and v in vals

    def expr(self):
        c = self.level(0)
        if self.isop('?'):
            self.eat()
            a = self.expr()
            self.eat('op', ':')
            b = self.expr()
            return ('tern', c, a, b)
        return c

    def level(self, n):
        if n == len(self.LEVELS):
            return self.unary()
        a = self.level(n + 1)
        while self.isop(*self.LEVELS[n]):
            op = self.eat()
            a = ('bin', op, a, self.level(n + 1))
        return a

    def unary(self):
        if self.isop('-', '!', '~', '*', '&'):
            op = self.eat()
            return ('un', op, self.unary())
        if self.isop('+'):
            self.eat()
            return self.unary()
        return self.postfix()

    def postfix(self):
        a = self.primary()
        while True:
            if self.isop('('):
                if a[0] != 'var':
                    raise Untranslatable("call of non-identifier")
                self.eat()
                args = []
                if not self.isop(')'):
                    args.append(self.expr())
                    while self.isop(','):
                        self.eat()
                        args.append(self.expr())
                self.eat('op', ')')
                a = ('call', a[1], args)
            elif self.isop('['):
                self.eat()
                i = self.expr()
                self.eat('op', ']')
                a = ('idx', a, i)
            else:
                return a

    def primary(self):
        k, v = self.peek()
        if k == 'num':
            self.eat()
            return ('num', v)
        if k == 'str':
            self.eat()
            return ('str', v)
        if k == 'id':
            self.eat()
            return ('var', v)
        if self.isop('('):
            self.eat()
            e = self.expr()
            self.eat('op', ')')
            return e
        raise Untranslatable("unexpected token %s %s" % (k, v))


def normalise(text):
    """(*(X)).m / (*X).m -> X->m for X a chain of identifiers;  X->m stays"""
    chain = r'[A-Za-z_]\w*(?:\s*(?:->|\.)\s*[A-Za-z_]\w*)*'
    prev = None
    while prev != text:
        prev = text
        text = re.sub(r'\(\s*\*\s*\(\s*(%s)\s*\)\s*\)\s*\.' % chain, r'\1->', text)
        text = re.sub(r'\(\s*\*\s*(%s)\s*\)\s*\.' % chain, r'\1->', text)
    return text


def parse(s):
    p = P(tokenize(normalise(s)))
    e = p.expr()
    if p.peek()[0] != 'eof':
        raise Untranslatable("trailing tokens: %r" % (p.t[p.i:p.i + 4],))
    return e


def nat_expr(e, env, calls=None):
    """integer-valued expression over non-negative values -> Gallina nat.  env: identifier -> text;
    calls: name -> function(list of arg ASTs, rec) -> text"""
    calls = calls or {}

    def rec(x):
        k = x[0]
        if k == 'num':
            if not re.fullmatch(r'\d+', x[1]):
                raise Untranslatable("non-integer literal in an integer expression: " + x[1])
            return x[1]
        if k == 'var':
            if x[1] not in env:
                raise Untranslatable("unknown identifier " + x[1])
            return env[x[1]]
        if k == 'bin' and x[1] in ('+', '*', '/', '%', '<<', '>>', '|', '&', '^'):
            f = {'+': 'Nat.add', '*': 'Nat.mul', '/': 'Nat.div', '%': 'Nat.modulo', '<<': 'Nat.shiftl', '>>': 'Nat.shiftr',
                 '|': 'Nat.lor', '&': 'Nat.land', '^': 'Nat.lxor'}[x[1]]
            if x[1] == '+':
                return "(%s + %s)" % (rec(x[2]), rec(x[3]))
            if x[1] == '*':
                return "(%s * %s)" % (rec(x[2]), rec(x[3]))
            return "(%s %s %s)" % (f, rec(x[2]), rec(x[3]))
        if k == 'tern':
            return "(if %s then %s else %s)" % (bool_expr(x[1], env, calls, rec), rec(x[2]), rec(x[3]))
        if k == 'call' and x[1] in calls:
            return calls[x[1]](x[2], rec)
        if k == 'bin' and x[1] == '-':
            raise Untranslatable("subtraction in an unsigned expression (wrap-around is not modelled)")
        raise Untranslatable("integer expression not recognised: %s" % (x,))
    return rec(e)


def bool_expr(e, env, calls=None, nat=None, atoms=None):
    """boolean expression -> Gallina bool; comparisons are between nat expressions.
    atoms: function(AST) -> text or None, tried first (label comparisons, zero tests of amplitudes, ...)"""
    calls = calls or {}
    nat = nat or (lambda x: nat_expr(x, env, calls))
    # comparisons are between nat expressions here: equivalent forms are made one first (norm_ast below, ints)
    e = norm_ast(e, ints=True)

    def rec(x):
        if atoms is not None:
            t = atoms(x)
            if t is not None:
                return t
        k = x[0]
        if k == 'bin' and x[1] in ('&&', '||'):
            return "(%s %s %s)" % (rec(x[2]), x[1], rec(x[3]))
        if k == 'un' and x[1] == '!':
            return "(negb %s)" % rec(x[2])
        if k == 'bin' and x[1] in ('==', '!=', '<', '<=', '>', '>='):
            a, b = nat(x[2]), nat(x[3])
            return {'==': "(%s =? %s)" % (a, b), '!=': "(negb (%s =? %s))" % (a, b),
                    '<': "(%s <? %s)" % (a, b), '<=': "(%s <=? %s)" % (a, b),
                    '>': "(%s <? %s)" % (b, a), '>=': "(%s <=? %s)" % (b, a)}[x[1]]
        if k == 'var' and x[1] in ('true', 'false'):
            return x[1]
        raise Untranslatable("boolean expression not recognised: %s" % (x,))
    return rec(e)


# ---------------------------------------------------------------------------------------------------------------
# NORMALISATION of equivalent forms (applied by every gen_*.py before it recognises / emits anything)
#
# A behaviour-preserving rewrite of the C++ should end as `same-as-snapshot`, a real change must not.  Every rule below is an
# identity of C++ for ALL operand types unless it says otherwise, and is purely syntactic (no rule looks at a snapshot):
#
#   conditions (text -> text, `canon`):
#     !(a == b) -> a != b      !(a != b) -> a == b      only when one operand certainly has a built-in type (literal, size(), an
#                                                       iterator from begin() / end() / find(), an arithmetic cast, a local declared
#                                                       int / size_t / bool / iterator ...): pomerol's classes have their own
#                                                       operator== AND operator!= -- two functions that could be changed separately
#     !(a && b) -> !a || !b    !(a || b) -> !a && !b    !!(boolean expr) -> expr     (short-circuit order is preserved)
#     b > a -> a < b           b >= a -> a <= b                             (same operator on swapped operands)
#     LITERAL == x -> x == LITERAL,  C.end() == it -> it == C.end()         (only a literal / end() on the left is moved)
#     (a && b) && c, a && (b && c) -> a && b && c   (same for ||)
#     redundant parentheses around a comparison / logical operand are dropped
#     ints=True only (the CALLER knows both operands are integers or bool -- never applied to floating point, where NaN breaks it):
#     !(a < b) -> b <= a       !(a <= b) -> b < a
#     containers (std:: containers only have these members; `count` of a map / set key):
#     C.size() == 0, C.size() < 1, C.size() <= 0, !C.size()           -> C.empty()
#     C.size() != 0, 0 < C.size(), 1 <= C.size(), C.size() as a test  -> !C.empty()
#     C.count(k) != 0, 0 < C.count(k), 1 <= C.count(k), C.count(k) as a test  -> C.find(k) != C.end()
#     C.count(k) == 0, C.count(k) < 1, !C.count(k)                             -> C.find(k) == C.end()
#   NOT rules (these are real changes and stay visible): `<` vs `<=`, `&&` vs `||`, a dropped or added conjunct, a changed
#   operand, `==` vs `<=`, swapped operands of `<`, `-`, `/`.
#
#   statements (`norm_stmts`):
#     return c ? X : Y;                 -> if (c) return X; else return Y;
#     if (c) return X;  return Y;       -> if (c) return X; else return Y;      (both single returns, the last two statements)
#     if (!c) A else B  /  if (a != b) A else B   -> if (c) B else A  /  if (a == b) B else A     (an `else` must be present;
#                                                       a != b only under the condition on the operand types given above)
#     conditions of if / while / for and the expression of `return <boolean expression>` are replaced by their canonical text
#     -- but only when a rule fired: text that is already canonical is left exactly as the author wrote it.

_NTOK = re.compile(r"""\s*(?:
    (?P<w>"(?:[^"\\]|\\.)*"|'(?:[^'\\]|\\.)*'|\d[\w\.]*(?:[eE][-+]?\d+)?[a-zA-Z]*|\.\d+(?:[eE][-+]?\d+)?[a-zA-Z]*|[A-Za-z_]\w*)
  | (?P<op><<=|>>=|->\*|->|::|\|\||&&|==|!=|<=|>=|<<|>>|\+\+|--|\+=|-=|\*=|/=|%=|\|=|&=|\^=|[^\s\w])
)""", re.X)


class _NoNorm(Exception):
    """the text is outside what the boolean skeleton understands: it is left alone"""


def _ntokens(text):
    out, pos = [], 0
    text = text.strip()
    while pos < len(text):
        m = _NTOK.match(text, pos)
        if not m or m.end() == pos:
            raise _NoNorm()
        pos = m.end()
        out.append(('w', m.group('w')) if m.group('w') is not None else ('op', m.group('op')))
    return out


def _join(toks):
    """tokens -> text without blanks (one blank between two word tokens)"""
    out = ""
    prev_w = False
    for k, v in toks:
        if k == 'w' and prev_w:
            out += " "
        out += v
        prev_w = (k == 'w')
    return out


_TYPE_TOKS = set(['::', ',', '*', '&', '<', '>', '>>'])


def _template_close(t, i):
    """t[i] is `<` preceded by a name: index of the matching `>` if this looks like a template argument list followed by `(` or `::`, else None"""
    if i == 0 or t[i - 1][0] != 'w' or not re.match(r'[A-Za-z_]', t[i - 1][1]):
        return None
    depth = 0
    for j in range(i, len(t)):
        k, v = t[j]
        if k == 'op' and v == '<':
            depth += 1
        elif k == 'op' and v in ('>', '>>'):
            depth -= len(v)
            if depth <= 0:
                if depth == 0 and j + 1 < len(t) and t[j + 1] == ('op', '(') or (depth == 0 and j + 1 < len(t) and t[j + 1] == ('op', '::')):
                    return j
                return None
        elif k == 'op' and v not in _TYPE_TOKS:
            return None
    return None


def _split0(t, seps):
    """split a token list at the depth-0 operators in seps (template argument lists count as nesting) -> [chunk, op, chunk, ...]"""
    out, cur, depth, j = [], [], 0, 0
    while j < len(t):
        k, v = t[j]
        if k == 'op' and v in '([{':
            depth += 1
        elif k == 'op' and v in ')]}':
            depth -= 1
            if depth < 0:
                raise _NoNorm()
        elif k == 'op' and v == '<' and depth == 0:
            c = _template_close(t, j)
            if c is not None:
                cur.extend(t[j:c + 1])
                j = c + 1
                continue
        if depth == 0 and k == 'op' and v in seps:
            out.append(cur)
            out.append(v)
            cur = []
        else:
            cur.append(t[j])
        j += 1
    if depth != 0:
        raise _NoNorm()
    out.append(cur)
    return out


_ASSIGN = ('=', '+=', '-=', '*=', '/=', '%=', '|=', '&=', '^=', '<<=', '>>=', ',', '?', ':', ';')
_ARITH = ('+', '-', '/', '%', '<<', '>>', '|', '^', '~')


def _depth0_ops(t):
    out, depth, j = [], 0, 0
    while j < len(t):
        k, v = t[j]
        if k == 'op' and v in '([{':
            depth += 1
        elif k == 'op' and v in ')]}':
            depth -= 1
        elif k == 'op' and v == '<' and depth == 0:
            c = _template_close(t, j)
            if c is not None:
                j = c + 1
                continue
        if depth == 0 and k == 'op':
            out.append((j, v))
        j += 1
    return out


def _bparse(t):
    """token list -> skeleton:  ('or', [..]) ('and', [..]) ('not', x) ('cmp', op, atom, atom) ('atom', text)"""
    if not t:
        raise _NoNorm()
    for _, v in _depth0_ops(t):
        if v in _ASSIGN:
            raise _NoNorm()
    parts = _split0(t, ('||',))
    if len(parts) > 1:
        return ('or', [_bparse(p) for p in parts[0::2]])
    parts = _split0(t, ('&&',))
    if len(parts) > 1:
        return ('and', [_bparse(p) for p in parts[0::2]])
    ops0 = _depth0_ops(t)
    # a single & | ^ next to a comparison binds differently from what the chunking below assumes
    parts = _split0(t, ('==', '!='))
    if len(parts) == 1:
        parts = _split0(t, ('<', '<=', '>', '>='))
    if len(parts) > 3:
        raise _NoNorm()
    if len(parts) == 3:
        for (j, v) in ops0:
            if v in ('|', '^') or (v == '&' and j > 0 and t[j - 1] not in (('op', '('),) and j != len(parts[0]) + 1):
                raise _NoNorm()
        return ('cmp', parts[1], _boperand(parts[0]), _boperand(parts[2]))
    return _bunary(t)


def _boperand(t):
    """operand of a comparison: an arithmetic chunk (atom); a fully parenthesised boolean operand keeps its structure"""
    if not t:
        raise _NoNorm()
    e = _bunary(t)
    return e


def _closes_at_end(t):
    if t[0] != ('op', '('):
        return False
    depth = 0
    for j, (k, v) in enumerate(t):
        if k == 'op' and v == '(':
            depth += 1
        elif k == 'op' and v == ')':
            depth -= 1
            if depth == 0:
                return j == len(t) - 1
    return False


def _bunary(t):
    if not t:
        raise _NoNorm()
    if t[0] == ('op', '!'):
        rest = t[1:]
        if not rest:
            raise _NoNorm()
        for (j, v) in _depth0_ops(rest):
            if v in _ARITH or (v in ('*', '&') and j > 0 and rest[j - 1] != ('op', '*') and rest[j - 1] != ('op', '!')):
                raise _NoNorm()       # !a + b is (!a) + b: not a negated chunk
        return ('not', _bunary(rest))
    if _closes_at_end(t):
        try:
            return _bparse(t[1:-1])
        except _NoNorm:
            return ('atom', _join(t))
    return ('atom', _join(t))


_PREC = {'or': 1, 'and': 2, 'cmp': 3, 'not': 4, 'atom': 5}


def _atom_needs_paren(text):
    """an atom that is an arithmetic chunk with a depth-0 binary operator needs parentheses under `!`"""
    try:
        t = _ntokens(text)
    except _NoNorm:
        return True
    return any(v in _ARITH or v in ('*', '&') and j > 0 for (j, v) in _depth0_ops(t))


def _bshow(e, outer=0):
    k = e[0]
    if k == 'atom':
        return e[1]
    if k == 'not':
        inner = e[1]
        s = _bshow(inner, 4)
        if inner[0] == 'atom' and _atom_needs_paren(inner[1]) and not (inner[1].startswith('(') and _closes_at_end(_ntokens(inner[1]))):
            s = "(" + s + ")"
        return "!" + s
    if k == 'cmp':
        s = _bshow(e[2], 4) + e[1] + _bshow(e[3], 4)
    elif k == 'and':
        s = "&&".join(_bshow(x, 2) for x in e[1])
    else:
        s = "||".join(_bshow(x, 1) for x in e[1])
    return "(" + s + ")" if _PREC[k] < outer or (k == 'cmp' and outer == 4) else s


_LITERAL = re.compile(r'(?:-?\d[\w\.]*|true|false|NULL|nullptr|[\w:\.\->\(\)\*]*?(?:\.|->)c?end\(\))$')
_SIZE = re.compile(r'(.+?)(\.|->)size\(\)$')
_COUNT = re.compile(r'(.+?)(\.|->)count\((.*)\)$')
_SWAP = {'>': '<', '>=': '<=', '<': '>', '<=': '>=', '==': '==', '!=': '!='}
_NEG_EQ = {'==': '!=', '!=': '=='}
_NEG_ORD = {'<': '>=', '<=': '>', '>': '<=', '>=': '<'}          # integers only: !(a < b) = a >= b


_BUILTIN = [frozenset()]          # names known to have a built-in arithmetic / bool / iterator type, innermost scope last
_BUILTIN_T = (r'(?:const\s+)?(?:unsigned\s+short|unsigned\s+int|unsigned\s+long\s+long|unsigned\s+long|unsigned\s+char|unsigned|signed|short|int|long\s+long|'
              r'long|char|bool|float|double|size_t|std::size_t|ptrdiff_t|std::ptrdiff_t|RealType|ParticleIndex|QuantumState|InnerQuantumState|'
              r'JobId|WorkerId|(?:typename\s+)?[\w:]+(?:<[^;=()]*>)?::(?:const_)?(?:reverse_)?iterator)')
_DECL_BUILTIN = re.compile(_BUILTIN_T + r'(?:\s+const)?\s+(\w+)\s*(?:=(?!=)|\(|$|,)')
_BUILTIN_LIT = re.compile(r"""(?: -?\d[\w\.]*(?:[eE][-+]?\d+)?[a-zA-Z]* | true | false | NULL | nullptr | '(?:[^'\\]|\\.)' )$""", re.X)
_BUILTIN_METHODS = ('end', 'cend', 'rend', 'crend', 'begin', 'cbegin', 'rbegin', 'crbegin', 'size', 'length', 'count', 'find',
                    'lower_bound', 'upper_bound', 'empty', 'rank')
_BUILTIN_CASTS = ('int', 'long', 'unsigned', 'size_t', 'std::size_t', 'bool', 'double', 'float', 'RealType', 'ParticleIndex',
                  'QuantumState', 'InnerQuantumState')


def _final_call(t):
    """t = PREFIX NAME ( ARGS ) with the last `)` closing the `(` after NAME -> (PREFIX, NAME) else None"""
    if not t.endswith(')'):
        return None
    depth = 0
    for j in range(len(t) - 1, -1, -1):
        if t[j] == ')':
            depth += 1
        elif t[j] == '(':
            depth -= 1
            if depth == 0:
                m = re.search(r'([A-Za-z_][\w:]*(?:<[^<>()]*>)?)$', t[:j])
                return (t[:m.start()], m.group(1)) if m else None
    return None


def _builtin_text(t):
    if _BUILTIN_LIT.match(t):
        return True
    fc = _final_call(t)
    if fc is None:
        return False
    prefix, name = fc
    if prefix == "" and (name in _BUILTIN_CASTS or re.fullmatch(r'static_cast<(?:%s)>' % "|".join(_BUILTIN_CASTS), name)):
        return True
    return name in _BUILTIN_METHODS and (prefix.endswith('.') or prefix.endswith('->')) and len(prefix) > 1


def _builtin_operand(e):
    if e[0] in ('or', 'and', 'cmp', 'not'):
        return True
    if e[0] != 'atom':
        return False
    t = e[1]
    while t.startswith('(') and t.endswith(')') and _balanced_text(t[1:-1]):
        t = t[1:-1]
    return t in _BUILTIN[-1] or (_balanced_text(t) and _builtin_text(t))


def _eq_ok(a, b):
    """a == b and a != b are each other's negation for certain: one operand has a built-in type (a literal, a size, an iterator
    from begin() / end() / find(), a cast to an arithmetic type, a local declared with such a type).  For class types with their
    own operator== / operator!= (IndexCombination4, Permutation4, QuantumNumbers, map entries of Operator, ...) the two are
    different functions, and rewriting one into the other could hide a change of one of them."""
    return _builtin_operand(a) or _builtin_operand(b)


def declared_builtins(sts):
    """names of the locals a statement list declares with a built-in arithmetic / bool / iterator type (loop variables included)"""
    out = set()
    for st in sts:
        if st[0] == 'simple':
            m = _DECL_BUILTIN.match(st[1])
            if m:
                out.add(m.group(1))
                # T a = .., b = ..;
                for mm in re.finditer(r',\s*(\w+)\s*(?:=(?!=)|$|,)', _depth0_text(st[1])):
                    out.add(mm.group(1))
        elif st[0] == 'for':
            head = st[1].split(';')[0]
            m = _DECL_BUILTIN.match(head.strip())
            if m:
                out.add(m.group(1))
            out |= declared_builtins(st[2])
        elif st[0] == 'if':
            out |= declared_builtins(st[2])
            if st[3] is not None:
                out |= declared_builtins(st[3])
        elif st[0] in ('while', 'foreach', 'block'):
            out |= declared_builtins(st[-1] if st[0] != 'block' else st[1])
        elif st[0] == 'do':
            out |= declared_builtins(st[1])
    return out


def _depth0_text(text):
    out, depth = "", 0
    for ch in text:
        if ch in '([{<':
            depth += 1
        elif ch in ')]}>':
            depth -= 1
        elif depth == 0:
            out += ch
    return out


def _is_boolean(e):
    return e[0] in ('or', 'and', 'cmp', 'not') or (e[0] == 'atom' and re.search(r'(?:\.|->)empty\(\)$', e[1]) is not None)


def _bneg(e, ints, test=False):
    """negation of a normalised skeleton.  test: the result is only used as a truth value (then !!x is x for any x)"""
    k = e[0]
    if k == 'not':
        return e[1] if (test or _is_boolean(e[1])) else ('not', e)
    if k == 'cmp' and e[1] in _NEG_EQ and (ints or _eq_ok(e[2], e[3])):
        return _idiom(('cmp', _NEG_EQ[e[1]], e[2], e[3]))
    if k == 'cmp' and ints and e[1] in _NEG_ORD:
        return _idiom(('cmp', _NEG_ORD[e[1]], e[2], e[3]))
    if k == 'and':
        return ('or', _flat('or', [_bneg(x, ints, True) for x in e[1]]))
    if k == 'or':
        return ('and', _flat('and', [_bneg(x, ints, True) for x in e[1]]))
    return ('not', e)


def _flat(kind, items):
    out = []
    for x in items:
        if x[0] == kind:
            out.extend(x[1])
        else:
            out.append(x)
    return out


def _balanced_text(s):
    depth = 0
    for ch in s:
        if ch in '([':
            depth += 1
        elif ch in ')]':
            depth -= 1
            if depth < 0:
                return False
    return depth == 0


def _member(rx, text):
    m = rx.match(text)
    if not m or not _balanced_text(m.group(1)) or not re.match(r'[A-Za-z_(\*]', m.group(1)):
        return None
    if rx is _COUNT and not _balanced_text(m.group(3)):
        return None
    return m


def _idiom(e):
    """container idioms: C.size() / C.count(k) compared with 0 or 1 (either orientation)"""
    if e[0] != 'cmp' or e[2][0] != 'atom' or e[3][0] != 'atom':
        return e
    op, a, b = e[1], e[2][1], e[3][1]
    for rx in (_SIZE, _COUNT):
        m = _member(rx, a)
        if not m and _member(rx, b):
            m, op, a, b = _member(rx, b), _SWAP[op], b, a          # member on the left
        if not m:
            continue
        if (op, b) in (('==', '0'), ('<', '1'), ('<=', '0')):
            zero = True
        elif (op, b) in (('!=', '0'), ('>', '0'), ('>=', '1')):
            zero = False
        else:
            continue
        if rx is _SIZE:
            em = ('atom', m.group(1) + m.group(2) + "empty()")
            return em if zero else ('not', em)
        cont = m.group(1) + m.group(2)
        return ('cmp', '==' if zero else '!=', ('atom', cont + "find(" + m.group(3) + ")"), ('atom', cont + "end()"))
    return e


def _test_atom(e):
    """an atom used as a truth value: C.size() / C.count(k) -> !C.empty() / C.find(k) != C.end()"""
    if e[0] == 'atom' and (_member(_SIZE, e[1]) or _member(_COUNT, e[1])):
        return _idiom(('cmp', '!=', e, ('atom', '0')))
    return e


def _bnorm(e, ints, test, orient=True):
    """test: the value is only used as a truth value (condition, operand of ! && ||);  orient: > and >= become < and <= on swapped
    operands (off when the text is handed on to code that recognises `Status >= Computed` literally)"""
    k = e[0]
    if k == 'atom':
        return _test_atom(e) if test else e
    if k == 'not':
        return _bneg(_bnorm(e[1], ints, True, orient), ints, test)
    if k in ('and', 'or'):
        return (k, _flat(k, [_bnorm(x, ints, True, orient) for x in e[1]]))
    op, a, b = e[1], _bnorm(e[2], ints, False, orient), _bnorm(e[3], ints, False, orient)
    r = _idiom(('cmp', op, a, b))
    if r[0] != 'cmp':
        return r
    op, a, b = r[1], r[2], r[3]
    if orient and op in ('>', '>='):
        op, a, b = _SWAP[op], b, a
    if op in ('==', '!=') and a[0] == 'atom' and b[0] == 'atom' and _LITERAL.match(a[1]) and not _LITERAL.match(b[1]):
        a, b = b, a
    return ('cmp', op, a, b)


def _orient(e):
    k = e[0]
    if k == 'not':
        return ('not', _orient(e[1]))
    if k in ('and', 'or'):
        return (k, [_orient(x) for x in e[1]])
    if k == 'cmp' and e[1] in ('>', '>='):
        return ('cmp', _SWAP[e[1]], _orient(e[3]), _orient(e[2]))
    if k == 'cmp':
        return ('cmp', e[1], _orient(e[2]), _orient(e[3]))
    return e


def canon_tree(text, ints=False, test=True, orient=True):
    """normalised skeleton of a C++ boolean expression, or None if the text is outside what the skeleton understands"""
    try:
        return _orient(_bnorm(_bparse(_ntokens(text)), ints, test, orient)) if orient else _bnorm(_bparse(_ntokens(text)), ints, test, orient)
    except _NoNorm:
        return None


def canon(text, ints=False, test=True, orient=True):
    """canonical text (no blanks) of a C++ condition; text outside the skeleton comes back squeezed and otherwise unchanged"""
    e = canon_tree(text, ints, test, orient)
    return squeeze(text) if e is None else _bshow(e)


def same_cond(a, b, ints=False):
    """two conditions are the same up to the rules above"""
    return canon(a, ints) == canon(b, ints)


def _plain(text):
    """the text as the skeleton prints it when NO rule is applied (to see whether a rule fired)"""
    try:
        return _bshow(_bparse(_ntokens(text)))
    except _NoNorm:
        return None


def canon_if_changed(text, ints=False, test=True):
    """the canonical text if a rule changed the structure, else the text as it was written.  Comparisons keep the orientation the
    author gave them (the recognisers downstream read `Status >= Computed`, `i >= 0` literally; the emitters orient themselves)"""
    e = canon_tree(text, ints, test, orient=False)
    if e is None:
        return text
    c = _bshow(e)
    return text if c == _plain(text) or c == squeeze(text) else c


def negative(text):
    """the condition is a negation at top level: !x or a != b (after normalisation)"""
    e = canon_tree(text, orient=False)
    return e is not None and (e[0] == 'not' or (e[0] == 'cmp' and e[1] == '!=' and _eq_ok(e[2], e[3])))


def negated(text, ints=False):
    """canonical text of the negation of a condition, or None"""
    e = canon_tree(text, ints, orient=False)
    return None if e is None else _bshow(_bneg(e, ints, True))


_TERMINAL = re.compile(r'(?:return\b|throw\b)')


def _is_return(st):
    return st[0] == 'simple' and re.match(r'return\b', st[1]) is not None


def _split_tern(text):
    """`c ? X : Y` at depth 0 (one ?: only) -> (c, X, Y) or None"""
    try:
        t = _ntokens(text)
    except _NoNorm:
        return None
    ops = [(j, v) for (j, v) in _depth0_ops(t) if v in ('?', ':')]
    if [v for _, v in ops] != ['?', ':']:
        return None
    if any(v in _ASSIGN and v not in ('?', ':') for _, v in _depth0_ops(t)):
        return None
    q, c = ops[0][0], ops[1][0]
    cond, x, y = t[:q], t[q + 1:c], t[c + 1:]
    if not cond or not x or not y:
        return None
    if _closes_at_end(cond):
        cond = cond[1:-1]
    return _respace(cond), _respace(x), _respace(y)


def _respace(toks):
    return _join(toks)


def norm_stmts(sts, ints=False, builtin=()):
    """the statement-level rules (see the table above); idempotent.  builtin: names (members, parameters) the caller knows to have
    a built-in arithmetic / bool / iterator type; the locals declared with such a type in sts are found here.
    PV_NO_NORM=1 in the environment switches the whole pass off (developer aid: shows what a rewrite would have given without it)"""
    if os.environ.get("PV_NO_NORM"):
        return sts
    _BUILTIN.append(frozenset(_BUILTIN[-1] | set(builtin) | declared_builtins(sts)))
    try:
        return _norm_stmts(sts, ints)
    finally:
        _BUILTIN.pop()


def _norm_stmts(sts, ints):
    out = []
    for st in sts:
        out.append(_norm_stmt(st, ints))
    # if (c) return X;  return Y;   (the last two statements)  ->  if / else
    if len(out) >= 2 and out[-2][0] == 'if' and out[-2][3] is None and len(out[-2][2]) == 1 and _is_return(out[-2][2][0]) \
            and _is_return(out[-1]) and squeeze(out[-2][2][0][1]) != 'return' and squeeze(out[-1][1]) != 'return':
        out = out[:-2] + [('if', out[-2][1], out[-2][2], [out[-1]])]
    # if (!c) A else B  ->  if (c) B else A
    res = []
    for st in out:
        if st[0] == 'if' and st[3] is not None and negative(st[1]):
            pos = negated(st[1], ints)
            if pos is not None:
                st = ('if', pos, st[3], st[2])
        res.append(st)
    return res


def tern_to_if(sts):
    """`return c ? X : Y;` as the last statement -> `if (c) return X; else return Y;` (normalised: a negative c is flipped).
    For recognisers that read the if / else form; the statement rules do not do this by themselves because other recognisers read
    the single return."""
    if sts and _is_return(sts[-1]):
        body = sts[-1][1][len("return"):].strip()
        while body.startswith('(') and _paren_whole(body):
            body = body[1:-1].strip()
        tern = _split_tern(body)
        if tern is not None:
            return norm_stmts(sts[:-1] + [('if', tern[0], [('simple', "return " + tern[1])], [('simple', "return " + tern[2])])])
    return sts


def if_to_tern(sts):
    """`if (c) return X; else return Y;` (also `if (c) return X; return Y;`) as the last statement -> `return c ? X : Y;`
    For recognisers that read a single return expression."""
    sts = norm_stmts(sts)
    if sts and sts[-1][0] == 'if' and sts[-1][3] is not None and len(sts[-1][2]) == 1 and len(sts[-1][3]) == 1 \
            and _is_return(sts[-1][2][0]) and _is_return(sts[-1][3][0]):
        x, y = sts[-1][2][0][1][len("return"):].strip(), sts[-1][3][0][1][len("return"):].strip()
        if x and y:
            return sts[:-1] + [('simple', "return (%s) ? (%s) : (%s)" % (sts[-1][1], x, y))]
    return sts


def _paren_whole(text):
    try:
        return _closes_at_end(_ntokens(text))
    except _NoNorm:
        return False


def _norm_stmt(st, ints):
    k = st[0]
    if k == 'simple':
        m = re.match(r'return\b\s*(.+)$', st[1], re.S)
        if m and _split_tern(m.group(1)) is None:
            new = canon_if_changed(m.group(1), ints, test=False)
            if new is not m.group(1):
                return ('simple', "return " + new)
        return st
    if k == 'block':
        return ('block', _norm_stmts(st[1], ints))
    if k == 'if':
        return ('if', canon_if_changed(st[1], ints), _norm_stmts(st[2], ints), None if st[3] is None else _norm_stmts(st[3], ints))
    if k == 'while':
        return ('while', canon_if_changed(st[1], ints), _norm_stmts(st[2], ints))
    if k == 'for':
        return ('for', _norm_for_header(st[1], ints), _norm_stmts(st[2], ints))
    if k == 'foreach':                    # gen_operator.py: BOOST_FOREACH(head) body
        return ('foreach', st[1], _norm_stmts(st[2], ints))
    if k == 'do':                         # gen_operator.py: do body while(cond)
        return ('do', _norm_stmts(st[1], ints), canon_if_changed(st[2], ints))
    return st


def _norm_for_header(head, ints):
    parts, depth, cur = [], 0, ""
    for ch in head:
        if ch in '([{':
            depth += 1
        elif ch in ')]}':
            depth -= 1
        if ch == ';' and depth == 0:
            parts.append(cur)
            cur = ""
        else:
            cur += ch
    parts.append(cur)
    if len(parts) != 3 or not parts[1].strip():
        return head
    new = canon_if_changed(parts[1].strip(), ints)
    if new is parts[1].strip() or new == parts[1].strip():
        return head
    return parts[0] + "; " + new + ";" + parts[2]


# the same rules on the ASTs of cexpr.parse / cstmt.parse (for emitters that are handed an AST)

def norm_ast(e, ints=False):
    """('un','!',..) pushed inward, > / >= oriented, literals to the right of == / != ;
    ints (the caller knows that the operands of every comparison are integers or bool): !(a == b) -> a != b, !(a < b) -> b <= a"""
    k = e[0]
    if k == 'un' and e[1] == '!':
        return _neg_ast(norm_ast(e[2], ints), ints)
    if k == 'un':
        return ('un', e[1], norm_ast(e[2], ints))
    if k == 'bin':
        op, a, b = e[1], norm_ast(e[2], ints), norm_ast(e[3], ints)
        if op in ('>', '>='):
            op, a, b = _SWAP[op], b, a
        if op in ('==', '!=') and a[0] == 'num' and b[0] != 'num':
            a, b = b, a
        return ('bin', op, a, b)
    if k == 'tern':
        return ('tern', norm_ast(e[1], ints), norm_ast(e[2], ints), norm_ast(e[3], ints))
    if k == 'call':
        return ('call', e[1], [norm_ast(a, ints) for a in e[2]])
    if k == 'idx':
        return ('idx', norm_ast(e[1], ints), norm_ast(e[2], ints))
    return e


def _neg_ast(e, ints):
    if e[0] == 'un' and e[1] == '!' and (e[2][0] == 'un' and e[2][1] == '!' or e[2][0] == 'bin' and e[2][1] in ('==', '!=', '<', '<=', '&&', '||')):
        return e[2]
    if e[0] == 'bin' and e[1] in _NEG_EQ and (ints or e[2][0] == 'num' or e[3][0] == 'num'):
        return ('bin', _NEG_EQ[e[1]], e[2], e[3])
    if e[0] == 'bin' and ints and e[1] in _NEG_ORD:
        return norm_ast(('bin', _NEG_ORD[e[1]], e[2], e[3]), ints)
    if e[0] == 'bin' and e[1] == '&&':
        return ('bin', '||', _neg_ast(e[2], ints), _neg_ast(e[3], ints))
    if e[0] == 'bin' and e[1] == '||':
        return ('bin', '&&', _neg_ast(e[2], ints), _neg_ast(e[3], ints))
    return ('un', '!', e)


def _selftest():
    """python3 translator/cstmt.py : the rules identify what they should and nothing else"""
    same = [("!(a != 0)", "a == 0"), ("!(it != m.end())", "it == m.end()"), ("m.end() == it", "it == m.end()"),
            ("b > a", "a < b"), ("b >= a", "a <= b"), ("!(a && b)", "!a || !b"), ("!(a || !b)", "!a && b"),
            ("(a == 1) && ((b) || c)", "a == 1 && (b || c)"), ("x.size() == 0", "x.empty()"), ("!x.size()", "x.empty()"),
            ("x.size() > 0", "!x.empty()"), ("0 < x.size()", "!x.empty()"), ("x.size() >= 1", "!x.empty()"),
            ("m.count(k) > 0", "m.find(k) != m.end()"), ("m.count(k) != 0", "m.find(k) != m.end()"), ("!m.count(k)", "m.find(k) == m.end()"),
            ("m.count(k) == 0", "m.find(k) == m.end()"), ("!!x.empty()", "x.empty()"), ("a && (b && c)", "(a && b) && c")]
    differ = [("a < b", "a <= b"), ("a < b", "b < a"), ("a && b", "a || b"), ("a && b", "a"), ("a && b", "b && a"), ("a == b", "a != b"),
              ("a == b", "a <= b"), ("i < n", "i < n - 1"), ("i < n", "i < m"), ("x.size() == 1", "x.empty()"), ("x.size() > 1", "!x.empty()"),
              ("m.count(k) > 1", "m.find(k) != m.end()"), ("m.count(k) == 1", "m.find(k) != m.end()"), ("!(a < b)", "a < b"),
              ("!(a < b)", "a <= b"), ("!a && b", "a && b"), ("!(a && b)", "!a && !b"), ("a - b < c", "b - a < c"), ("a / b < c", "b / a < c"),
              ("!(*l == *r)", "*l != *r"),            # class types: operator== and operator!= are two functions
              ("!(A == B)", "A != B")]
    for a, b in same:
        assert canon(a) == canon(b), ("should be one condition", a, b, canon(a), canon(b))
    for a, b in differ:
        assert canon(a) != canon(b), ("must stay different", a, b, canon(a))
        assert canon(a, ints=True) != canon(b, ints=True) or (a, b) in (("!(*l == *r)", "*l != *r"), ("!(A == B)", "A != B")), ("must stay different (ints)", a, b)
    assert canon("!(a < b)") != canon("b <= a") and canon("!(a < b)", ints=True) == canon("b <= a", ints=True)     # integers only (NaN)
    assert canon("!(a <= b)", ints=True) == canon("b < a", ints=True) and canon("!(a <= b)", ints=True) != canon("b <= a", ints=True)
    def sq(x):                                   # statements with the blanks of their texts removed
        if isinstance(x, str):
            return squeeze(x)
        if isinstance(x, (list, tuple)):
            return type(x)(sq(y) for y in x)
        return x

    def st(text):
        return sq(statements(text))
    _tern_to_if, _if_to_tern = tern_to_if, if_to_tern

    def tern_to_if_(x):
        return sq(_tern_to_if(statements(x)))

    def if_to_tern_(x):
        return sq(_if_to_tern(statements(x)))
    assert st("if (!c) A; else B;") == st("if (c) B; else A;")
    assert st("if (it != m.end()) return it->second; else return set(k);") == st("if (it == m.end()) return set(k); return it->second;")
    assert st("if (c) A; else B;") != st("if (c) B; else A;")                      # branches exchanged without negating: a real change
    assert st("if (c) return X; return Y;") == st("if (c) return X; else return Y;")
    assert st("if (c) return X; return Y;") != st("if (c) return Y; return X;")
    assert st("if (c) return X; return Y;") != st("return Y;")                    # dropped guard
    assert st("if (a && b) x;") != st("if (a || b) x;") and st("if (a) x;") != st("x;")
    assert st("for (size_t i = 0; i < n; ++i) f(i);") != st("for (size_t i = 0; i <= n; ++i) f(i);")
    assert st("for (size_t i = 0; n > i; ++i) f(i);")[0][1] == "size_ti=0;n>i;++i"        # orientation is left to the emitters
    assert st("if (A != B) x; else y;") == [('if', 'A!=B', [('simple', 'x')], [('simple', 'y')])]   # class-typed: not flipped
    assert st("size_t n = f(); if (n != m) x; else y;")[1] == ('if', 'n==m', [('simple', 'y')], [('simple', 'x')])
    assert tern_to_if_("return c ? X : Y;") == st("if (c) return X; else return Y;")
    assert tern_to_if_("return !c ? X : Y;") == st("if (c) return Y; else return X;")
    assert if_to_tern_("if (c) return X; return Y;") == if_to_tern_("if (!c) return Y; else return X;")
    assert if_to_tern_("if (c) return X; return Y;") != if_to_tern_("if (c) return Y; return X;")
    e1, e2 = parse("!(i < n) || !(a != b)"), parse("n <= i || a == b")
    assert norm_ast(e1, ints=True) == norm_ast(e2, ints=True) and norm_ast(e1) != norm_ast(e2)
    assert norm_ast(parse("b > a"), ints=True) == norm_ast(parse("a < b"), ints=True) != norm_ast(parse("a <= b"), ints=True)
    assert norm_ast(parse("!(a && b)"), ints=True) == norm_ast(parse("!a || !b"), ints=True) != norm_ast(parse("!a && !b"), ints=True)
    print("cstmt selftest: ok")


if __name__ == "__main__":
    _selftest()
